//! Properties that are not (only) walker based: C04 constructed positions, C15/C16 text,
//! C17 feature enumeration, C18 concurrency, C20 long games.

use crate::core::*;
use crate::drive::View;
use crate::ensure;
use crate::gen::{self, PosMode, RawPos};
use crate::model::{self as m, Board, Model};
use crate::props::{c04_check, piece_board_of};
use crate::registry;
use crate::runner::*;
use crate::textprops::*;
use arimaa_engine_step::{GameState, List, Phase, PieceBoard, PlayPhase, PushPullState, Square, Zobrist};
use proptest::prelude::*;
use proptest::test_runner::{TestCaseError, TestError, TestRunner};
use serde_json::{json, Value};
use std::cell::RefCell;
use std::process::Command;

pub fn handles(id: &str) -> bool {
    matches!(id, "C04" | "C06" | "C09" | "C10" | "C11" | "C15" | "C16" | "C17" | "C18" | "C20")
}

pub fn rule(id: &str) -> String {
    match id {
        "C16" => "evaluation = one value round trip (all 263 actions, 64 squares, 6 pieces, 4 directions: exhaustive) or one string fed to Action/Square/Piece/Direction::from_str under catch_unwind (all 475,255 strings of length <= 4 over a 26-symbol alphabet containing every boundary of the notation and 2/3/4-byte characters: exhaustive; longer and arbitrary Unicode strings and random u64 bitboards: sampled); oracle: no panic, Ok(v) => print(v) == s (upper-case piece letters allowed), reference grammar => Ok; non-trivial = string of length 1-3 whose first character is a letter, '`' or non-ASCII (it gets past the length test into slicing/arithmetic), or a value round trip; every value is also printed under formatter flags (text must be the plain text padded as a whole, or parse back) and after prints into failing sinks".into(),
        "C17" => "evaluation = one pair of play-phase states built with the public constructors that differ in exactly one hashed feature (content of one square among 13 contents, side, step, push/pull status among 641, or one piece relocated), whose transposition hashes must differ; the feature space is enumerated completely for every generated context (board, side, step, status) and every pair is also asked back to back in both orders; along generated games the neighbours of reached states (641 statuses, other side, 13 contents of the squares last touched) are built around the state's own per-turn record, history and capture flag; non-trivial = every such pair (all are distinct by construction; counted per distinct context x feature kind x feature value)".into(),
        "C18" => "evaluation = one generated concurrent program (T threads sharing Arc<GameState>, each expanding / cloning / dropping / querying, with states handed across threads) whose per-thread transcripts are compared with the sequential run of the same program; plus the exchange scenario (threads playing different lines and expanding each other's states), the sibling scenario (states of one turn each queried repeatedly by its own thread), cold starts in fresh processes, racing releases of long shared histories, and the compile-time probe of Send + Sync for the public types; non-trivial = program with >= 2 threads expanding the same state and >= 1 state handed across threads".into(),
        "C20" => "evaluation = one long capture-free game played through offered actions in a child process on a default-size thread, followed by clone / queries / one more action / every way of letting go of sole-owner copies (drop, clone_from, assignment, mem::replace, parts, containers, unwinding, capture), each acknowledged by a progress line; policies: one-step turns, 1-3 step turns, out-and-back (every position of the first half recurs in the second); oracle = child exits 0 with all progress lines (a stack overflow is a fatal signal); non-trivial = history length >= 10000 as reported by the child; distinct by (seed, N, policy, profile)".into(),
        "C04" | "C05" | "C06" | "C07" | "C19" => format!("{}; states include history-injected forks (a played mid-turn or turn-start state whose repetition history has been extended through the public constructors so that turn-ending actions become third occurrences), counted like any other state", registry::rule(id)),
        "C01" | "C12" => format!("{}; states include play states rebuilt through GameState::new / PlayPhase::new", registry::rule(id)),
        _ => registry::rule(id).to_string(),
    }
}

pub fn assumptions(id: &str) -> Vec<String> {
    let mut v = vec![
        "reachable = reached from GameState::initial() or from a parsed legal position through actions the engine offers only: valid_actions() everywhere; valid_actions_no_rep() as well in the legs named ..._through_withheld_actions (properties that do not depend on the repetition rules; the crate documents that list for populating transposition tables); up to 12 offered actions after a reported result in the legs named games_played_on_after_the_result, otherwise never continued after a result".to_string(),
        "harness build = opt-level 3 with overflow-checks and debug-assertions on, applied to the engine crate as well".to_string(),
    ];
    match id {
        "C05" | "C06" | "C07" => {
            v.push("no 64-bit Zobrist collision between distinct positions inside one game's history (probability < 1e-8 per run)".into());
            v.push("injected-history legs: a mid-turn state rebuilt through the public constructors with the results of some of its turn-ending actions inserted twice at the old end of its repetition history is treated as a state a real game can be in (same material, no capture in the current turn, reconstruction without injection verified to be indistinguishable from the played state)".into());
            v.push("start positions may show a piece standing unsupported on a trap (one generated start in eight); the first action removes it".into());
        }
        "C02" | "C03" | "C10" | "C14" | "C15" | "C19" => v.push("start positions may show a piece standing unsupported on a trap (one generated start in eight); the first action removes it (C10: 'once any action has been applied')".into()),
        "C01" | "C12" | "C04" | "C09" | "C13" => v.push("reference model of the rules (harness/src/model.rs) is itself correct; cross-checked by C11 which uses no model".into()),
        "C08" => {
            v.push("'from scratch' means the crate's own Zobrist::from_piece_board, not a copy of its tables".into());
            v.push("start positions may show a piece standing unsupported on a trap (one generated start in eight); the first action removes it".into());
        }
        "C18" => v.push("the OS scheduler is not controlled: interleavings are sampled, data races are looked for with ThreadSanitizer in the thorough tier".into()),
        "C20" => v.push("quick tier uses the dev profile (what cargo test users run); thorough adds opt-level 3".into()),
        _ => {}
    }
    v
}

fn text_replay(id: &str, kind: &str, fail: &Fail, text: &str, seed: u64, shard: usize) -> Value {
    json!({"property": id, "kind": kind, "clause": fail.clause, "detail": fail.detail, "text": text, "seed": seed, "shard": shard})
}

/// Generic sharded proptest loop for non-game cases.
fn sharded<V, S>(
    cfg: &RunCfg,
    leg: usize,
    cases: u32,
    strategy: impl Fn() -> S + Sync,
    test: impl Fn(&V, &mut Stats) -> Check + Sync,
    to_replay: impl Fn(&V, &Fail, usize) -> Value + Sync,
    sample: impl Fn(&V) -> Value + Sync,
    stats: &mut Stats,
) -> Outcome
where
    V: std::fmt::Debug + Clone,
    S: Strategy<Value = V>,
{
    let results: Vec<(Stats, Option<Result<Violation, String>>)> = std::thread::scope(|sc| {
        let mut hs = vec![];
        for shard in 0..SHARDS {
            let strategy = &strategy;
            let test = &test;
            let to_replay = &to_replay;
            let sample = &sample;
            let id = cfg.id.clone();
            let seed = cfg.seed;
            hs.push(sc.spawn(move || {
                install_hook();
                let mut runner = TestRunner::new(proptest_config(cases, shard_seed(seed, &id, leg, shard)));
                let st = RefCell::new(Stats::default());
                let res = runner.run(&strategy(), |v: V| {
                    let mut s = st.borrow_mut();
                    match test(&v, &mut s) {
                        Ok(()) => {
                            if shard == 0 {
                                s.sample(4, || sample(&v));
                            }
                            Ok(())
                        }
                        Err(f) => {
                            s.frozen = true;
                            Err(TestCaseError::fail(f.clause))
                        }
                    }
                });
                let mut stats = st.into_inner();
                stats.frozen = false;
                let out = match res {
                    Ok(()) => None,
                    Err(TestError::Fail(reason, minimal)) => {
                        let mut tmp = Stats::default();
                        match guard(|| test(&minimal, &mut tmp)) {
                            Ok(Err(f)) => Some(Ok(Violation { replay: to_replay(&minimal, &f, shard), fail: f })),
                            Ok(Ok(())) => Some(Err("shrunk case did not fail when re-run".to_string())),
                            // a panic of the harness itself is never a violation
                            Err(p) => Some(Err(format!("harness panicked ({}; proptest said: {})", p, reason))),
                        }
                    }
                    Err(TestError::Abort(r)) => Some(Err(format!("proptest aborted: {}", r))),
                };
                (stats, out)
            }));
        }
        hs.into_iter().map(|h| h.join().expect("shard")).collect()
    });
    let mut first = None;
    for (s, o) in results {
        stats.merge(s);
        if first.is_none() {
            first = o;
        }
    }
    match first {
        None => Outcome::Pass,
        Some(Ok(v)) => Outcome::Violation(v),
        Some(Err(e)) => Outcome::Inconclusive(e),
    }
}

macro_rules! try_outcome {
    ($e:expr) => {
        match $e {
            Outcome::Pass => {}
            other => return other,
        }
    };
}

pub fn run(cfg: &RunCfg, stats: &mut Stats, exhaustive: &mut bool, extra: &mut Value) -> Outcome {
    match cfg.id.as_str() {
        "C04" => run_c04(cfg, stats),
        "C06" => run_walks(cfg, stats, 1),
        "C09" => run_c09_hash_twins(cfg, stats),
        "C10" => run_c10_parsed(cfg, stats),
        "C11" => match run_c11_static(cfg, stats) {
            Outcome::Pass => run_walks(cfg, stats, 1),
            other => other,
        },
        "C15" => match run_c15(cfg, stats) {
            Outcome::Pass => run_call_sites(cfg, stats),
            other => other,
        },
        "C19" => match macro_paths(&cfg.id, stats).and_then(|_| many_callers(stats)).and_then(|_| if cfg.thorough { endurance(stats) } else { Ok(()) }) {
            Ok(()) => run_call_sites(cfg, stats),
            Err(f) => Outcome::Violation(Violation { replay: json!({"property": cfg.id, "kind": "macro_paths", "clause": f.clause, "detail": f.detail}), fail: f }),
        },
        "C02" | "C03" | "C08" | "C12" | "C13" | "C14" => match macro_paths(&cfg.id, stats).and_then(|_| if cfg.id == "C12" || cfg.id == "C13" { push_situations(&cfg.id, stats) } else { Ok(()) }) {
            Ok(()) => Outcome::Pass,
            Err(f) => Outcome::Violation(Violation { replay: json!({"property": cfg.id, "kind": "macro_paths", "clause": f.clause, "detail": f.detail}), fail: f }),
        },
        "C16" => run_c16(cfg, stats, exhaustive, extra),
        "C17" => run_c17(cfg, stats, exhaustive, extra),
        "C18" => crate::conc::run_c18(cfg, stats, extra),
        "C20" => crate::longgame::run_c20(cfg, stats, extra),
        _ => Outcome::Pass,
    }
}

pub fn replay(id: &str, v: &Value) -> Result<Option<Fail>, String> {
    let mut st = Stats::default();
    match (id, v["kind"].as_str().unwrap_or("")) {
        ("C15", "text") => Ok(c15_text_check(v["text"].as_str().ok_or("text")?, &mut st).err()),
        ("C09", "hash_twins") => {
            let mk = registry::observer_for("C09").unwrap();
            let mut obs = mk();
            for key in ["first", "second"] {
                let codes: Vec<u8> = v[key].as_array().ok_or("codes")?.iter().filter_map(|x| x.as_u64().map(|y| y as u8)).collect();
                let mut g = GameState::initial();
                let mut mo = Model::initial();
                for &k in codes.iter() {
                    g = g.take_action(&to_action(m::MAction::Place(k)));
                    mo.apply(m::MAction::Place(k))?;
                }
                let vw = crate::drive::View::new(&g, &mo, false);
                if let Err(f) = obs.on_state(&vw, &mut st) {
                    return Ok(Some(f));
                }
            }
            Ok(None)
        }
        ("C10", "parsed_text") => Ok(c10_parsed_text(v["text"].as_str().ok_or("text")?, &mut st).err()),
        ("C15", "valid_diagram") => match crate::drive::start_from_json(&v["start"])? {
            gen::Start::Pos(p) => Ok(c15_valid_diagram(&p, &mut st).err()),
            _ => Err("bad start".into()),
        },
        ("C16", "string") => Ok(c16_string(v["text"].as_str().ok_or("text")?, &mut st).err()),
        ("C16", "values") => Ok(c16_values(&mut st).err()),
        ("C16", "concurrent") => Ok(c16_concurrent(20_000, &mut st).err()),
        ("C16", "boundary_lengths") => Ok(c16_boundary_lengths(&mut st).err().map(|x| x.0)),
        ("C16", "bitboard") => Ok(c16_bitboard(v["bits"].as_u64().ok_or("bits")?, &mut st).err()),
        ("C04", "position") => {
            let start = crate::drive::start_from_json(&v["start"])?;
            match start {
                gen::Start::Pos(p) => Ok(c04_position(&p, &mut st).err()),
                _ => Err("bad start".into()),
            }
        }
        ("C11", "position") => match crate::drive::start_from_json(&v["start"])? {
            gen::Start::Pos(p) => Ok(c11_position(&p, &mut st).err()),
            _ => Err("bad start".into()),
        },
        ("C17", "context") => {
            let start = crate::drive::start_from_json(&v["start"])?;
            match start {
                gen::Start::Pos(p) => {
                    let ctx = C17Ctx { board: p.board, gold: p.gold_to_move, step: v["step"].as_u64().unwrap_or(0) as usize, status_idx: v["status_idx"].as_u64().unwrap_or(0) as usize };
                    Ok(c17_context(&ctx, &mut st).err())
                }
                _ => Err("bad start".into()),
            }
        }
        (_, "macro_paths") => Ok(macro_paths(id, &mut st).and_then(|_| if id == "C19" { many_callers(&mut st).and_then(|_| endurance(&mut st)) } else if id == "C12" || id == "C13" { push_situations(id, &mut st) } else { Ok(()) }).err()),
        (_, "call_site") => {
            let start = crate::drive::start_from_json(&v["start"])?;
            let actions: Vec<arimaa_engine_step::Action> = v["actions"].as_array().ok_or("actions")?.iter().filter_map(|x| x.as_str()).map(crate::drive::parse_action_text).collect::<Result<_, _>>()?;
            Ok(call_site_check(id, &start, &actions, &mut st).err())
        }
        ("C18", _) => crate::conc::replay_c18(v),
        ("C20", _) => crate::longgame::replay_c20(v),
        _ => Err(format!("unknown replay kind for {}", id)),
    }
}

// =====================================================================================
// C04: constructed positions
// =====================================================================================

#[derive(Clone, Debug)]
pub struct C04Raw {
    pub raw: RawPos,
    pub target: u8,
    pub goal_file_last: u8,
    pub goal_file_mover: u8,
    pub imm: Vec<(u8, u8, u8)>,
}

/// Steers a generated position towards a 5-bit target (last mover on goal, mover on goal, mover
/// without rabbits, last mover without rabbits, mover immobilised). The target only steers; the
/// oracle re-derives all five facts from the resulting board.
pub fn c04_build(c: &C04Raw) -> gen::PosSpec {
    let mut p = gen::build_pos(&c.raw, PosMode::Any);
    let mover = p.gold_to_move;
    let last = !mover;
    let t = c.target;
    let mut b = p.board;
    if t & 16 != 0 {
        // immobilised mover: rebuild the board from frozen / blocked mover pieces only
        b = gen::immobilised_board(mover, &c.imm).0;
    }
    let set_rabbit = |b: &mut Board, gold: bool, file: u8| {
        let row = if gold { 0 } else { 7 };
        let sq = row * 8 + (file % 8);
        if b.count(m::mk(gold, m::R)) >= 8 && b.at(sq) != m::mk(gold, m::R) {
            // keep within the complement: take a rabbit from elsewhere
            if let Some(i) = (0..64u8).find(|&i| b.at(i) == m::mk(gold, m::R)) {
                b.0[i as usize] = m::EMPTY;
            }
        }
        b.0[sq as usize] = m::mk(gold, m::R);
    };
    let clear_goal = |b: &mut Board, gold: bool| {
        let row = if gold { 0 } else { 7 };
        for f in 0..8u8 {
            if b.at(row * 8 + f) == m::mk(gold, m::R) {
                b.0[(row * 8 + f) as usize] = m::EMPTY;
            }
        }
    };
    let remove_rabbits = |b: &mut Board, gold: bool| {
        for i in 0..64usize {
            if b.0[i] == m::mk(gold, m::R) {
                b.0[i] = m::EMPTY;
            }
        }
    };
    if t & 1 != 0 {
        set_rabbit(&mut b, last, c.goal_file_last);
    } else {
        clear_goal(&mut b, last);
        if t & 8 != 0 {
            remove_rabbits(&mut b, last);
        }
    }
    if t & 2 != 0 {
        set_rabbit(&mut b, mover, c.goal_file_mover);
    } else {
        clear_goal(&mut b, mover);
        if t & 4 != 0 {
            remove_rabbits(&mut b, mover);
        }
    }
    // legalise traps again
    for &tr in m::TRAPS.iter() {
        let cc = b.at(tr);
        if cc != m::EMPTY && !b.has_friend_adjacent(tr, m::is_gold(cc)) {
            b.0[tr as usize] = m::EMPTY;
        }
    }
    p.board = b;
    p
}

pub fn c04_position(p: &gen::PosSpec, st: &mut Stats) -> Check {
    let eng = engine_from_position_styled(&p.board, p.gold_to_move, p.move_number, p.notation).map_err(|e| Fail::new("harness:start", e))?;
    let mo = Model::from_position(p.board, p.gold_to_move, p.move_number);
    let v = View::new(&eng, &mo, false);
    c04_check(&v, st)
}

fn run_c04(cfg: &RunCfg, stats: &mut Stats) -> Outcome {
    // constructed "push-only" positions first (small space: enumerated over the selector bytes that matter)
    {
        let mut n = 0u64;
        for a in 0..4u8 {
            for x in 0..5u8 {
                for s2 in 0..8u8 {
                    for s3 in 0..4u8 {
                        for f in 0..4u8 {
                            for misc in 0..6u8 {
                                for gold in [true, false] {
                                    let sel = [a, x, s2, s3, f, misc, misc.wrapping_mul(5), misc];
                                    if let Some(p) = gen::push_only_pos(&sel, gold) {
                                        n += 1;
                                        match c04_position(&p, stats) {
                                            Err(f) if f.clause.starts_with("harness:") => {}
                                            Err(f) => {
                                                return Outcome::Violation(Violation { replay: json!({"property": "C04", "kind": "position", "clause": f.clause, "detail": f.detail, "start": crate::drive::start_json(&gen::Start::Pos(p)), "seed": cfg.seed, "shard": 0}), fail: f });
                                            }
                                            Ok(()) => {}
                                        }
                                    }
                                }
                            }
                        }
                    }
                }
            }
        }
        stats.add("push_only_positions", n);
    }
    let cases = if cfg.thorough { 400_000 } else { 40_000 };
    let strat = || {
        (gen::raw_pos(), 0u8..32, 0u8..8, 0u8..8, prop::collection::vec((any::<u8>(), any::<u8>(), any::<u8>()), 1..5))
            .prop_map(|(raw, target, a, b, imm)| C04Raw { raw, target, goal_file_last: a, goal_file_mover: b, imm })
    };
    let id = cfg.id.clone();
    let seed = cfg.seed;
    let mut s = Stats::default();
    let out = sharded(
        cfg,
        10,
        cases,
        strat,
        |c: &C04Raw, st: &mut Stats| {
            let p = c04_build(c);
            st.bump(&format!("target_{:05b}", c.target));
            match c04_position(&p, st) {
                Err(f) if f.clause.starts_with("harness:") => {
                    st.bump("inconclusive_start");
                    Ok(())
                }
                r => r,
            }
        },
        |c, f, shard| {
            let p = c04_build(c);
            json!({"property": id, "kind": "position", "clause": f.clause, "detail": f.detail, "start": crate::drive::start_json(&gen::Start::Pos(p)), "seed": seed, "shard": shard})
        },
        |c| {
            let p = c04_build(c);
            json!({"constructed_position": board_text(&p.board), "gold_to_move": p.gold_to_move, "target_bits": format!("{:05b}", c.target)})
        },
        &mut s,
    );
    let mut pref = Stats::default();
    pref.evaluations = s.evaluations;
    pref.nontrivial = s.nontrivial;
    pref.samples = s.samples;
    for (k, v) in s.counters {
        pref.counters.insert(format!("constructed/{}", k), v);
    }
    stats.merge(pref);
    out
}


// =====================================================================================
// C11: static metamorphic check on constructed positions (immobilised / near-immobile / boxed
// movers, rabbits on goal ranks, sides without rabbits) - the positions random games rarely reach
// =====================================================================================

pub fn c11_position(p: &gen::PosSpec, st: &mut Stats) -> Check {
    use crate::props::{sym_action, sym_board, sym_winner, Sym};
    let eng = engine_from_position_styled(&p.board, p.gold_to_move, p.move_number, p.notation).map_err(|e| Fail::new("harness:start", e))?;
    st.eval();
    let base = guard(|| (eng.valid_actions(), eng.valid_actions_no_rep(), winner_of(&eng.is_terminal()))).map_err(|e| Fail::new("C11:panic", e))?;
    let ctx = format!("[{} | {} to move]", board_text(&p.board), if p.gold_to_move { "gold" } else { "silver" });
    for s in [Sym::Mirror, Sym::Swap, Sym::Both] {
        let ib = sym_board(s, &p.board);
        let side = if s == Sym::Mirror { p.gold_to_move } else { !p.gold_to_move };
        let img = engine_from_position_styled(&ib, side, p.move_number, p.notation.rotate_left(1)).map_err(|e| Fail::new("harness:start", e))?;
        let r = guard(|| (img.valid_actions(), img.valid_actions_no_rep(), winner_of(&img.is_terminal()))).map_err(|e| Fail::new("C11:image_panic", e))?;
        let map = |l: &[arimaa_engine_step::Action]| -> std::collections::BTreeSet<m::MAction> { l.iter().map(|a| sym_action(s, to_maction(a))).collect() };
        let set = |l: &[arimaa_engine_step::Action]| -> std::collections::BTreeSet<m::MAction> { l.iter().map(to_maction).collect() };
        ensure!(map(&base.0) == set(&r.0), "C11:offered", "under {:?} the offered actions [{}] do not map onto the image's [{}] at {}", s, actions_text(&base.0), actions_text(&r.0), ctx);
        ensure!(map(&base.1) == set(&r.1), "C11:offered_norep", "under {:?} the rule-only actions do not map onto the image's at {}", s, ctx);
        ensure!(sym_winner(s, base.2) == r.2, "C11:result", "under {:?} result {:?} maps to {:?} but the image reports {:?} at {}", s, base.2, sym_winner(s, base.2), r.2, ctx);
    }
    if base.2.is_some() || base.0.is_empty() {
        st.bump("static/position_with_result");
    }
    st.nontrivial(fp_combine(p.board.fingerprint(), p.gold_to_move as u64 + 100));
    Ok(())
}

fn run_c11_static(cfg: &RunCfg, stats: &mut Stats) -> Outcome {
    let cases = if cfg.thorough { 300_000 } else { 12_000 };
    let strat = || {
        prop_oneof![
            3 => (gen::raw_pos(), 0u8..32, 0u8..8, 0u8..8, prop::collection::vec((any::<u8>(), any::<u8>(), any::<u8>()), 1..5))
                .prop_map(|(raw, target, a, b, imm)| c04_build(&C04Raw { raw, target, goal_file_last: a, goal_file_mover: b, imm })),
            2 => gen::near_immobile(),
        ]
    };
    let seed = cfg.seed;
    let mut s = Stats::default();
    let out = sharded(
        cfg,
        20,
        cases,
        strat,
        |p: &gen::PosSpec, st: &mut Stats| match c11_position(p, st) {
            Err(f) if f.clause.starts_with("harness:") => Ok(()),
            r => r,
        },
        |p, f, shard| json!({"property": "C11", "kind": "position", "clause": f.clause, "detail": f.detail, "start": crate::drive::start_json(&gen::Start::Pos(p.clone())), "seed": seed, "shard": shard}),
        |p| json!({"static_position": board_text(&p.board), "gold_to_move": p.gold_to_move}),
        &mut s,
    );
    let mut pref = Stats::default();
    pref.evaluations = s.evaluations;
    pref.nontrivial = s.nontrivial;
    pref.samples = s.samples;
    for (k, v) in s.counters {
        pref.counters.insert(format!("static/{}", k), v);
    }
    stats.merge(pref);
    out
}


// =====================================================================================
// Exhaustive single-piece walks (C06, C11): every piece code x start square x 4-step path, played as
// one turn on an otherwise almost empty board. A hash that confuses two squares of one piece code
// within walking distance makes the engine withhold (or offer) the wrong fourth step; random play
// needs the exact piece on the exact squares, the enumeration does not.
// =====================================================================================

fn walk_start(code: u8, from: u8, path: &[u8]) -> Option<gen::PosSpec> {
    // squares the walker touches
    let mut touched = vec![from];
    let mut cur = from;
    for &d in path {
        cur = m::neighbour(cur, d)?;
        touched.push(cur);
    }
    let mut b = Board::empty();
    b.0[from as usize] = code;
    let gold = m::is_gold(code);
    // one rabbit per side, on its own home rank, away from everything the walker touches
    let near = |sq: u8| touched.iter().any(|&t| t == sq || m::neighbours(t).any(|n| n == sq));
    for (side, row) in [(true, 7u8), (false, 0u8)] {
        if m::kind(code) == m::R && side == gold {
            continue; // the walker is that side's rabbit
        }
        let mut placed = false;
        for f in [0u8, 7, 1, 6, 2, 5, 3, 4] {
            let sq = row * 8 + f;
            if b.at(sq) == m::EMPTY && !near(sq) {
                b.0[sq as usize] = m::mk(side, m::R);
                placed = true;
                break;
            }
        }
        if !placed {
            return None;
        }
    }
    // a friendly guard next to every trap the walker touches (otherwise it could not cross it)
    for &t in touched.iter() {
        if m::is_trap(t) && !b.has_friend_adjacent(t, gold) {
            let spot = m::neighbours(t).find(|n| !touched.contains(n) && b.at(*n) == m::EMPTY);
            match spot {
                Some(n) => b.0[n as usize] = m::mk(gold, m::R),
                None => return None,
            }
        }
    }
    if b.rabbit_on_goal(true) || b.rabbit_on_goal(false) || !b.within_complement() || !b.traps_legal() {
        return None;
    }
    Some(gen::PosSpec { board: b, gold_to_move: gold, move_number: 5, notation: 0 })
}

fn run_walks(cfg: &RunCfg, stats: &mut Stats, stride: usize) -> Outcome {
    let mk = match registry::observer_for(&cfg.id) {
        Some(m) => m,
        None => return Outcome::Pass,
    };
    let id = cfg.id.clone();
    let seed = cfg.seed;
    let results: Vec<(Stats, Option<Violation>)> = std::thread::scope(|sc| {
        (0..SHARDS)
            .map(|shard| {
                let id = id.clone();
                sc.spawn(move || {
                    install_hook();
                    let mut st = Stats::default();
                    let opts = crate::drive::WalkOpts { profile: crate::drive::Profile::Normal, expand: None, follow_norep: false, inject: crate::drive::Inject::No, interfere: false, play_on: false };
                    let mut n = 0usize;
                    for ci in 0..12u8 {
                        let code = if ci < 6 { m::mk(true, ci + 1) } else { m::mk(false, ci - 5) };
                        for from in 0..64u8 {
                            for pidx in 0..256u32 {
                                n += 1;
                                if n % SHARDS != shard || (n / SHARDS) % stride != 0 {
                                    continue;
                                }
                                let path = [(pidx & 3) as u8, ((pidx >> 2) & 3) as u8, ((pidx >> 4) & 3) as u8, ((pidx >> 6) & 3) as u8];
                                let start = match walk_start(code, from, &path) {
                                    Some(p) => gen::Start::Pos(p),
                                    None => continue,
                                };
                                let actions: Vec<arimaa_engine_step::Action> = {
                                    let mut cur = from;
                                    path.iter()
                                        .map(|&d| {
                                            let a = to_action(m::MAction::Step { from: cur, dir: d });
                                            cur = m::neighbour(cur, d).unwrap_or(cur);
                                            a
                                        })
                                        .collect()
                                };
                                let mut obs = mk();
                                match crate::drive::walk(&start, crate::drive::Source::Explicit(&actions), 0, &opts, &mut *obs, &mut st) {
                                    Ok((end, _)) => {
                                        if end.steps >= 3 {
                                            st.bump("walks/four_step_walks_reaching_the_last_step");
                                        }
                                    }
                                    Err(wf) if wf.inconclusive => {}
                                    Err(wf) => {
                                        let replay = replay_json(&id, "single_piece_walks", &wf.fail, &start, &wf.trace, crate::drive::Profile::Normal, seed, shard);
                                        return (st, Some(Violation { replay, fail: wf.fail }));
                                    }
                                }
                            }
                        }
                    }
                    (st, None)
                })
            })
            .collect::<Vec<_>>()
            .into_iter()
            .map(|h| h.join().expect("shard"))
            .collect()
    });
    for (s, v) in results {
        let mut s = s;
        let keep: Vec<(String, u64)> = s.counters.iter().filter(|(k, _)| k.starts_with("walks/")).map(|(k, v)| (k.clone(), *v)).collect();
        s.counters.clear();
        for (k, v) in keep {
            s.counters.insert(k, v);
        }
        stats.merge(s);
        if let Some(v) = v {
            return Outcome::Violation(v);
        }
    }
    Outcome::Pass
}


// =====================================================================================
// C10 on states the parser returns for near-diagram texts (every state the public API hands out is
// "reachable" in the sense of C10: its views must describe one position)
// =====================================================================================

pub fn c10_parsed_text(text: &str, st: &mut Stats) -> Check {
    st.eval();
    let g = match guard(|| text.parse::<GameState>()) {
        Ok(Ok(g)) => g,
        _ => return Ok(()), // rejected or panicked: C15's business
    };
    st.bump("parsed/texts_accepted");
    let b = read_board(g.piece_board()).map_err(|e| Fail::new("C10:raw_boards", format!("the state parsed from a text has inconsistent boards ({}); text: {:?}", e, text.chars().take(400).collect::<String>())))?;
    crate::props::c10_views(g.piece_board(), &b, "state parsed from text")?;
    // (no complement clause here: a text may legitimately show any material, the parser does not judge
    // legality; what must hold is that the views of the state it returns describe one position)
    st.nontrivial(fp_str(text));
    Ok(())
}

fn run_c10_parsed(cfg: &RunCfg, stats: &mut Stats) -> Outcome {
    for t in golden_c15_texts() {
        if let Err(f) = c10_parsed_text(&t, stats) {
            return Outcome::Violation(Violation { replay: text_replay("C10", "parsed_text", &f, &t, cfg.seed, 0), fail: f });
        }
    }
    let cases = if cfg.thorough { 200_000 } else { 20_000 };
    let seed = cfg.seed;
    let mut s = Stats::default();
    let out = sharded(
        cfg,
        30,
        cases,
        c15_text,
        |c: &TextCase, st: &mut Stats| c10_parsed_text(&c.text, st),
        |c, f, shard| text_replay("C10", "parsed_text", f, &c.text, seed, shard),
        |c| json!({"text": c.text.chars().take(300).collect::<String>()}),
        &mut s,
    );
    let mut pref = Stats::default();
    pref.evaluations = s.evaluations;
    pref.nontrivial = s.nontrivial;
    for (k, v) in s.counters {
        pref.counters.insert(format!("parsed/{}", k), v);
    }
    stats.merge(pref);
    out
}


// =====================================================================================
// C15 / C19 from an unusual call site: the queries of a reached state are asked from the destructor of a
// thread-local while its thread exits (where a client's per-thread log, cache or statistics object
// flushes itself), after the same queries have been asked normally on that thread.
// =====================================================================================

fn end_of(start: &gen::Start, actions: &[arimaa_engine_step::Action]) -> Result<(GameState, Model), String> {
    let (mut eng, mut mo) = crate::drive::start_states(start)?;
    for a in actions {
        let n = guard(|| eng.take_action(a)).map_err(|p| format!("take_action panicked: {}", p))?;
        mo.apply(to_maction(a))?;
        eng = n;
    }
    Ok((eng, mo))
}

pub fn call_site_check(id: &str, start: &gen::Start, actions: &[arimaa_engine_step::Action], st: &mut Stats) -> Check {
    if end_of(start, actions).is_err() {
        st.bump("call_site_case_not_built");
        return Ok(());
    }
    let mk = registry::observer_for(id).ok_or_else(|| Fail::new("harness", "no observer".into()))?;
    // only plain data crosses into the probe thread (the engine's types need not be Send for this
    // check): the state is built again inside it, once for the warm-up and once in the destructor
    let plain: Vec<m::MAction> = actions.iter().map(to_maction).collect();
    let (s1, s2, p1, p2) = (start.clone(), start.clone(), plain.clone(), plain);
    let build = |s: &gen::Start, p: &[m::MAction]| -> Option<(GameState, Model)> {
        let acts: Vec<arimaa_engine_step::Action> = p.iter().map(|a| to_action(*a)).collect();
        end_of(s, &acts).ok()
    };
    let r = in_tls_destructor(
        move || {
            if let Some((e1, m1)) = build(&s1, &p1) {
                let mut obs = mk();
                let mut s = Stats::default();
                let _ = obs.on_state(&crate::drive::View::new(&e1, &m1, true), &mut s);
            }
        },
        move || {
            guard(|| {
                let (e2, m2) = build(&s2, &p2)?;
                let mut obs = mk();
                let mut s = Stats::default();
                Some((obs.on_state(&crate::drive::View::new(&e2, &m2, true), &mut s), m2.fingerprint()))
            })
        },
    );
    st.eval();
    match r {
        Some(Ok(Some((Ok(()), fp)))) => {
            st.bump("states_observed_from_a_thread_local_destructor");
            st.nontrivial(fp_combine(fp, 0x715));
            Ok(())
        }
        Some(Ok(Some((Err(f), _)))) => Err(Fail::new(&f.clause, format!("(asked from the destructor of a thread-local while the thread exits, after the same queries had been asked normally on that thread) {}", f.detail))),
        Some(Ok(None)) => {
            st.bump("call_site_case_not_built");
            Ok(())
        }
        Some(Err(p)) => Err(Fail::new(&format!("{}:panic", id), format!("building or observing the state from a thread-local destructor panicked: {}", p))),
        None => {
            st.bump("thread_local_destructor_probe_did_not_run");
            Ok(())
        }
    }
}

fn run_call_sites(cfg: &RunCfg, stats: &mut Stats) -> Outcome {
    let cases = if cfg.thorough { 400 } else { 40 };
    let seed = cfg.seed;
    let id = cfg.id.clone();
    let id2 = cfg.id.clone();
    let params = gen::GameParams { max_ops: 30, w_setup: 1, w_pos: 6, w_small: 3, w_frozen: 1, hanging: false, w_motif: 1, w_open: 0 };
    let mut s = Stats::default();
    let out = sharded(
        cfg,
        40,
        cases,
        || gen::game(params),
        move |c: &gen::Case, st: &mut Stats| {
            struct Nop;
            impl crate::drive::Obs for Nop {}
            let opts = crate::drive::WalkOpts { profile: crate::drive::Profile::Fight, expand: None, follow_norep: false, inject: crate::drive::Inject::No, interfere: false, play_on: false };
            let mut scratch = Stats::default();
            let actions = match crate::drive::run_case(c, &opts, &mut Nop, &mut scratch) {
                Ok((_, t)) => t.actions,
                Err(_) => return Ok(()),
            };
            call_site_check(&id, &c.start, &actions, st)
        },
        move |c, f, shard| {
            struct Nop;
            impl crate::drive::Obs for Nop {}
            let opts = crate::drive::WalkOpts { profile: crate::drive::Profile::Fight, expand: None, follow_norep: false, inject: crate::drive::Inject::No, interfere: false, play_on: false };
            let mut scratch = Stats::default();
            let actions = crate::drive::run_case(c, &opts, &mut Nop, &mut scratch).map(|x| x.1.actions).unwrap_or_default();
            json!({"property": id2, "kind": "call_site", "clause": f.clause, "detail": f.detail, "start": crate::drive::start_json(&c.start), "actions": actions.iter().map(action_text).collect::<Vec<_>>(), "seed": seed, "shard": shard})
        },
        |c| json!({"start": crate::drive::start_json(&c.start), "ops": c.ops.len()}),
        &mut s,
    );
    let mut pref = Stats::default();
    pref.evaluations = s.evaluations;
    pref.nontrivial = s.nontrivial;
    for (k, v) in s.counters {
        pref.counters.insert(format!("call_site/{}", k), v);
    }
    stats.merge(pref);
    out
}

// =====================================================================================
// States reached through the crate's own `take_actions!` / `board!` macros (literal action lists - the
// way the README, the doc tests and most client test code reach positions). The macros take tokens, so
// these paths are fixed; each end state and every intermediate one is observed with the property's
// observer against the model, exactly like a state reached by `take_action`.
// =====================================================================================

pub fn macro_paths(id: &str, st: &mut Stats) -> Check {
    use arimaa_engine_step::{board, take_actions};
    let mk = match registry::observer_for(id) {
        Some(m) => m,
        None => return Ok(()),
    };
    const OPENING: &str = "2g\n +-----------------+\n8| r r r r r r r r |\n7| h d c e m c d h |\n6|     x     x     |\n5|                 |\n4|                 |\n3|     x     x     |\n2| H D C M E C D H |\n1| R R R R R R R R |\n +-----------------+\n   a b c d e f g h";
    const SKIRMISH: &str = "7s\n +-----------------+\n8|                 |\n7|   r             |\n6|     x     x     |\n5|       r d       |\n4|       E C       |\n3|     x     x     |\n2|   R             |\n1|                 |\n +-----------------+\n   a b c d e f g h";
    // (start text, action texts, state reached with the macro from that start)
    let opening = || guard(|| board!("2g\n +-----------------+\n8| r r r r r r r r |\n7| h d c e m c d h |\n6|     x     x     |\n5|                 |\n4|                 |\n3|     x     x     |\n2| H D C M E C D H |\n1| R R R R R R R R |\n +-----------------+\n   a b c d e f g h"));
    let skirmish = || guard(|| board!("7s\n +-----------------+\n8|                 |\n7|   r             |\n6|     x     x     |\n5|       r d       |\n4|       E C       |\n3|     x     x     |\n2|   R             |\n1|                 |\n +-----------------+\n   a b c d e f g h"));
    let mut cases: Vec<(&str, Vec<&str>, Result<GameState, String>)> = vec![];
    macro_rules! path {
        ($text:expr, $start:expr, $($a:tt),*) => {
            cases.push(($text, vec![$(stringify!($a)),*], $start().and_then(|s| guard(|| take_actions!(s => $($a),*)))));
        };
    }
    path!(OPENING, opening, a2n);
    path!(OPENING, opening, a2n, a3n);
    path!(OPENING, opening, a2n, h2n, d2n);
    path!(OPENING, opening, b2n, b3e, c3n);
    path!(OPENING, opening, a2n, h2n, d2n, e2n);
    path!(OPENING, opening, d2n, d3n, p);
    path!(OPENING, opening, e2n, e3n, e4n, e5n, a7s, a6s, p);
    path!(OPENING, opening, h2n, h3w, g3n, p, h7s, h6s, h5s, h4s);
    path!(SKIRMISH, skirmish, e5e, f5s);
    path!(SKIRMISH, skirmish, e4s, e5s);
    path!(SKIRMISH, skirmish, e4s, e5s, b7s);
    path!(SKIRMISH, skirmish, b7s, p, d5n, d4n);
    path!(SKIRMISH, skirmish, b7s, p, d4w, d5s);
    path!(SKIRMISH, skirmish, b7s, p, d4w, d5s, b2n);
    for (text, actions, reached) in cases {
        let macro_state = reached.map_err(|p| Fail::new(&format!("{}:panic", id), format!("take_actions!/board! panicked on the path {}: {}", actions.join(" "), p)))?;
        // the model along the same path (and the engine through plain take_action, for the start)
        let start_eng = match guard(|| text.parse::<GameState>()).ok().and_then(|r| r.ok()) {
            Some(x) => x,
            None => continue, // C15's business
        };
        let board = match read_board_lenient(start_eng.piece_board()) {
            Ok(b) => b,
            Err(_) => continue,
        };
        let mut mo = Model::from_position(board, start_eng.is_p1_turn_to_move(), start_eng.move_number());
        let mut legal = true;
        for a in actions.iter() {
            let act = match crate::drive::parse_action_text(a) {
                Ok(x) => x,
                Err(_) => {
                    legal = false;
                    break;
                }
            };
            if !mo.offered().contains(&to_maction(&act)) || mo.apply(to_maction(&act)).is_err() {
                legal = false; // a path of this list that is not legal play is the harness's mistake: skipped, counted
                break;
            }
        }
        if !legal {
            st.bump("macro_paths_skipped_as_not_legal");
            continue;
        }
        st.eval();
        let mut obs = mk();
        obs.on_state(&crate::drive::View::new(&macro_state, &mo, true), st).map_err(|f| Fail::new(&f.clause, format!("(state reached with take_actions![.. => {}]) {}", actions.join(", "), f.detail)))?;
        st.nontrivial(fp_combine(mo.fingerprint(), 0x3ac));
    }
    st.bump("states_reached_through_the_macros");
    Ok(())
}

// =====================================================================================
// C19 endurance (thorough tier and replay only): one thread asks a wide-open position for its action
// lists until it has been handed more than 2^32 actions in total - what a search worker does within the
// hour. Anything the engine counts in 32 bits along the way wraps (or, with overflow checks, panics).
// =====================================================================================
pub fn endurance(st: &mut Stats) -> Check {
    let mut best: Option<(usize, gen::PosSpec)> = None;
    for k in 0..24u8 {
        let p = gen::open_pos(&[k, k.wrapping_mul(37), 11, 0, 7, 3, 3, k], &[(9, 0, 0), (50, 0, 0), (20, 0, 0), (33, 0, 0), (44, 0, 0), (27, 0, 0), (14, 0, 0), (59, 0, 0)], k % 2 == 0);
        let n = Model::from_position(p.board, p.gold_to_move, 2).offered_norep().len();
        if best.as_ref().map(|b| n > b.0).unwrap_or(true) {
            best = Some((n, p));
        }
    }
    let (n, p) = best.unwrap();
    let eng = engine_from_position(&p.board, p.gold_to_move, 2).map_err(|e| Fail::new("harness:start", e))?;
    let target: u64 = (1u64 << 32) + (1u64 << 22);
    let r = guard(|| {
        let mut total = 0u64;
        let mut calls = 0u64;
        while total < target {
            total += eng.valid_actions().len() as u64;
            total += eng.valid_actions_no_rep().len() as u64;
            calls += 2;
        }
        (total, calls)
    });
    match r {
        Ok((total, calls)) => {
            st.add("endurance_actions_handed_to_one_thread", total);
            st.add("endurance_calls", calls);
            st.eval();
            Ok(())
        }
        Err(pn) => Err(Fail::new("C19:valid_actions", format!("after billions of offered actions on one thread (a position offering {} actions asked over and over, aiming at 2^32 actions in total) a list query panicked: {} at [{}]", n, pn, board_text(&p.board)))),
    }
}

// =====================================================================================
// C19 many callers (once per run): 160 threads, each with its *own* states built from plain text, ask the
// same query at the same time, query after query (a rendezvous before each, so that all of them are
// inside that query together for the whole phase). Nothing is shared between the threads except what the
// engine itself keeps process-wide; every call must return normally, as it does for one caller.
// =====================================================================================
pub fn many_callers(st: &mut Stats) -> Check {
    const THREADS: usize = 160;
    const TEXT: &str = "7g\n +-----------------+\n8|                 |\n7|   r             |\n6|     x     x     |\n5|       r d       |\n4|       E C       |\n3|     x     x     |\n2|   R             |\n1|                 |\n +-----------------+\n   a b c d e f g h";
    let phases: usize = 9;
    let barrier = std::sync::Arc::new(std::sync::Barrier::new(THREADS));
    let mut handles = vec![];
    for t in 0..THREADS {
        let barrier = barrier.clone();
        handles.push(std::thread::Builder::new().stack_size(1 << 20).spawn(move || -> Result<u64, String> {
            let built = guard(|| -> Option<Vec<GameState>> {
                let s0: GameState = TEXT.parse().ok()?;
                let mut v = vec![s0.clone()];
                let mut s = s0;
                for a in ["b2n", "b3n", "b4n"] {
                    s = s.take_action(&crate::drive::parse_action_text(a).ok()?);
                    v.push(s.clone());
                }
                Some(v)
            });
            let states: Vec<GameState> = match &built {
                Ok(Some(v)) => v.clone(),
                _ => vec![],
            };
            let mut first_err: Option<String> = match built {
                Err(p) => Some(format!("building the states panicked: {}", p)),
                _ => None,
            };
            let mut calls = 0u64;
            for phase in 0..phases {
                barrier.wait();
                // the two cheapest queries are asked of one state only (the turn start, then the state three
                // steps in) so that the threads are inside the very same code for the whole phase
                let reps = if phase == 0 { 400_000 } else if phase == 1 { 100_000 } else if phase < 4 { 4000 } else { 600 };
                for i in 0..reps {
                    let pick = if phase < 2 { if i < reps * 2 / 3 { 0 } else { 3 } } else { (i + t) % states.len().max(1) };
                    let s = match states.get(pick) {
                        Some(s) => s,
                        None => break,
                    };
                    let r = guard(|| match phase {
                        0 => { std::hint::black_box(s.has_move(s.piece_board())); }
                        1 => { std::hint::black_box(s.is_terminal()); }
                        2 => { std::hint::black_box(s.can_pass(true)); std::hint::black_box(s.can_pass(false)); }
                        3 => { std::hint::black_box(s.transposition_hash()); }
                        4 => { std::hint::black_box(s.valid_actions().len()); }
                        5 => { std::hint::black_box(s.valid_actions_no_rep().len()); }
                        6 => { std::hint::black_box(format!("{}", s).len()); }
                        7 => {
                            for a in s.valid_actions() {
                                std::hint::black_box(s.take_action(&a).transposition_hash());
                            }
                        }
                        _ => {
                            let steps = s.as_play_phase().map(|pp| pp.step()).unwrap_or(0);
                            for k in 0..=steps.min(3) {
                                std::hint::black_box(s.piece_board_for_step(k).bits_by_piece_type(arimaa_engine_step::Piece::Rabbit));
                            }
                        }
                    });
                    calls += 1;
                    if let Err(p) = r {
                        if first_err.is_none() {
                            first_err = Some(format!("query phase {} ({}) panicked: {}", phase, ["has_move", "is_terminal", "can_pass", "transposition_hash", "valid_actions", "valid_actions_no_rep", "Display", "take_action of every offered action", "piece_board_for_step"][phase], p));
                        }
                        break;
                    }
                }
            }
            match first_err {
                Some(e) => Err(e),
                None => Ok(calls),
            }
        }));
    }
    let mut total = 0u64;
    let mut fail: Option<String> = None;
    for (t, h) in handles.into_iter().enumerate() {
        match h {
            Ok(h) => match h.join() {
                Ok(Ok(n)) => total += n,
                Ok(Err(e)) => {
                    if fail.is_none() {
                        fail = Some(format!("thread {} of {}: {}", t, THREADS, e));
                    }
                }
                Err(_) => {
                    if fail.is_none() {
                        fail = Some(format!("thread {} of {} died outside the guarded calls", t, THREADS));
                    }
                }
            },
            Err(_) => {
                // the machine would not start that many threads: the others wait at the rendezvous for ever,
                // so this must not happen silently
                return Err(Fail::new("harness:spawn", "could not start 160 threads".into()));
            }
        }
    }
    st.add("many_callers_calls", total);
    st.eval();
    match fail {
        None => {
            st.bump("many_callers_runs");
            Ok(())
        }
        Some(e) => Err(Fail::new("C19:panic", format!("with 160 threads asking their own copies of the same states (the skirmish position, zero to three steps into Gold's turn) the same query at the same time: {}", e))),
    }
}

// =====================================================================================
// Push situations on every square (C12, C13): for every vacated square v, every pusher square p next to
// it, every square w the pushed piece goes to and every square q of a second, stronger friendly piece
// next to v - free, or frozen by a stronger enemy piece on each of its other neighbours in turn - the
// push is started through the offered action and the resulting state is observed. Both colours.
// The oracle is the model, as everywhere; the enumeration only makes sure that every square of the board
// (corners, edges, trap neighbourhoods) has been the scene.
// =====================================================================================
pub fn push_situations(id: &str, st: &mut Stats) -> Check {
    let mk = match registry::observer_for(id) {
        Some(m) => m,
        None => return Ok(()),
    };
    let mut n = 0u64;
    for v in 0..64u8 {
        for p in m::neighbours(v) {
            for w in m::neighbours(v) {
                if w == p {
                    continue;
                }
                for q in m::neighbours(v) {
                    if q == p || q == w {
                        continue;
                    }
                    let mut freezers: Vec<Option<u8>> = vec![None];
                    freezers.extend(m::neighbours(q).filter(|&z| z != v && z != p && z != w).map(Some));
                    for fz in freezers {
                        for gold in [true, false] {
                            let mut b = Board::empty();
                            b.0[v as usize] = m::mk(!gold, m::C);
                            b.0[p as usize] = m::mk(gold, m::D);
                            b.0[q as usize] = m::mk(gold, m::H);
                            if let Some(z) = fz {
                                b.0[z as usize] = m::mk(!gold, m::M);
                            }
                            // a rabbit each, out of the way
                            for (side, cands) in [(gold, [62u8, 57, 6, 1]), (!gold, [5u8, 2, 61, 58])] {
                                for c in cands {
                                    let row_ok = if side { c / 8 != 0 } else { c / 8 != 7 };
                                    if row_ok && b.at(c) == m::EMPTY && !m::neighbours(c).any(|x| b.at(x) != m::EMPTY) && ![v, p, w, q].contains(&c) {
                                        b.0[c as usize] = m::mk(side, m::R);
                                        break;
                                    }
                                }
                            }
                            if !b.traps_legal() || !b.within_complement() || !b.has_rabbit(true) || !b.has_rabbit(false) {
                                continue;
                            }
                            let eng = match engine_from_position(&b, gold, 5) {
                                Ok(e) => e,
                                Err(_) => continue,
                            };
                            let mut mo = Model::from_position(b, gold, 5);
                            let dir = (0..4u8).find(|&d| m::neighbour(v, d) == Some(w));
                            let push = match dir {
                                Some(d) => m::MAction::Step { from: v, dir: d },
                                None => continue,
                            };
                            if mo.result_at_turn_start().is_some() || !mo.offered().contains(&push) {
                                continue;
                            }
                            let pa = to_action(push);
                            let offered = guard(|| eng.valid_actions()).unwrap_or_default();
                            if !offered.contains(&pa) {
                                continue; // C01's business
                            }
                            let next = match guard(|| eng.take_action(&pa)) {
                                Ok(x) => x,
                                Err(_) => continue,
                            };
                            if mo.apply(push).is_err() {
                                continue;
                            }
                            n += 1;
                            st.eval();
                            let mut obs = mk();
                            obs.on_state(&crate::drive::View::new(&next, &mo, true), st).map_err(|f| Fail::new(&f.clause, format!("(constructed push situation: {} pushed from {} to {}, pusher on {}, second piece on {}{}) {}", m::code_letter(m::mk(!gold, m::C)), m::sq_name(v), m::sq_name(w), m::sq_name(p), m::sq_name(q), fz.map(|z| format!(", frozen from {}", m::sq_name(z))).unwrap_or_default(), f.detail)))?;
                        }
                    }
                }
            }
        }
    }
    st.add("constructed_push_situations", n);
    Ok(())
}

// =====================================================================================
// C09: setup states whose position hashes agree in their low or high 32 bits, asked one right after
// the other. Anything the engine remembers about "the last setup position" under a shortened key
// answers the second question with the first one's answer. A few hundred thousand random prefixes
// contain dozens of such pairs (birthday bound), so they are found, not hoped for.
// =====================================================================================

fn run_c09_hash_twins(cfg: &RunCfg, stats: &mut Stats) -> Outcome {
    use crate::drive::View;
    let per_shard = if cfg.thorough { 120_000usize } else { 25_000usize };
    // 1. random setup prefixes (placement codes), generated in parallel; only take_action is used here
    let seed = cfg.seed;
    let chunks: Vec<Vec<(u64, Vec<u8>)>> = std::thread::scope(|sc| {
        (0..SHARDS)
            .map(|shard| {
                sc.spawn(move || {
                    let mut out = Vec::with_capacity(per_shard);
                    let mut rng = shard_seed(seed, "C09-twins", 0, shard);
                    for _ in 0..per_shard {
                        rng = mix64(rng);
                        let len = 1 + (rng % 31) as usize;
                        let mut g = GameState::initial();
                        let mut mo = Model::initial();
                        let mut codes = Vec::with_capacity(len);
                        for _ in 0..len {
                            rng = mix64(rng);
                            let offered: Vec<m::MAction> = mo.offered_norep().into_iter().collect();
                            if offered.is_empty() || !mo.setup {
                                break;
                            }
                            let a = offered[(rng % offered.len() as u64) as usize];
                            if let m::MAction::Place(k) = a {
                                codes.push(k);
                            }
                            g = g.take_action(&to_action(a));
                            let _ = mo.apply(a);
                        }
                        if mo.setup {
                            out.push((g.transposition_hash(), codes));
                        }
                    }
                    out
                })
            })
            .collect::<Vec<_>>()
            .into_iter()
            .map(|h| h.join().expect("shard"))
            .collect()
    });
    let mut all: Vec<(u64, Vec<u8>)> = chunks.into_iter().flatten().collect();
    all.sort();
    all.dedup();
    // 2. pairs agreeing in the low / high 32 bits but not equal
    let mut pairs: Vec<(usize, usize)> = vec![];
    for (shift, mask) in [(0u32, 0xffff_ffffu64), (32u32, 0xffff_ffffu64)] {
        let mut idx: Vec<usize> = (0..all.len()).collect();
        idx.sort_by_key(|&i| (all[i].0 >> shift) & mask);
        for w in idx.windows(2) {
            let (a, b) = (w[0], w[1]);
            if (all[a].0 >> shift) & mask == (all[b].0 >> shift) & mask && all[a].0 != all[b].0 {
                pairs.push((a, b));
                pairs.push((b, a));
            }
        }
    }
    stats.add("hash_twins/setup_prefixes", all.len() as u64);
    stats.add("hash_twins/pairs_agreeing_in_32_bits", (pairs.len() / 2) as u64);
    // 3. ask the two states of each pair one right after the other (single thread)
    let build = |codes: &[u8]| -> (GameState, Model) {
        let mut g = GameState::initial();
        let mut mo = Model::initial();
        for &k in codes {
            g = g.take_action(&to_action(m::MAction::Place(k)));
            let _ = mo.apply(m::MAction::Place(k));
        }
        (g, mo)
    };
    let mk = registry::observer_for("C09").unwrap();
    for (a, b) in pairs.into_iter().take(400) {
        let (ga, ma) = build(&all[a].1);
        let (gb, mb) = build(&all[b].1);
        let mut obs = mk();
        let r = guard(|| {
            let va = View::new(&ga, &ma, false);
            obs.on_state(&va, stats)?;
            let vb = View::new(&gb, &mb, false);
            obs.on_state(&vb, stats)
        });
        match r {
            Ok(Ok(())) => {}
            Ok(Err(f)) => {
                let fail = Fail::new(&f.clause, format!("(two setup positions whose hashes agree in 32 bits, asked one right after the other: first {:?}, then {:?}) {}", all[a].1, all[b].1, f.detail));
                return Outcome::Violation(Violation { replay: json!({"property": "C09", "kind": "hash_twins", "clause": fail.clause, "detail": fail.detail, "first": all[a].1, "second": all[b].1}), fail });
            }
            Err(p) => return Outcome::Inconclusive(format!("harness panicked in the hash-twin leg: {}", p)),
        }
    }
    Outcome::Pass
}

// =====================================================================================
// C15 text half
// =====================================================================================

pub fn c15_valid_diagram(p: &gen::PosSpec, st: &mut Stats) -> Check {
            st.eval();
            st.bump("text/valid_diagrams");
            let text = p.board.diagram(p.move_number, p.gold_to_move);
            let g = guard(|| text.parse::<GameState>()).map_err(|e| Fail::new("C15:parse_panic", format!("{} on\n{}", e, text)))?;
            let g = g.map_err(|e| Fail::new("C15:valid_diagram_rejected", format!("{} for\n{}", e, text)))?;
            let b = read_board(g.piece_board()).map_err(|e| Fail::new("C15:board", e))?;
            ensure!(b == p.board && g.is_p1_turn_to_move() == p.gold_to_move && g.move_number() == p.move_number, "C15:valid_diagram_misread", "the diagram of a legal position is read back as a different position (board [{}], gold to move {}, move number {}):\n{}", board_text(&b), g.is_p1_turn_to_move(), g.move_number(), text);
            let printed = guard(|| g.to_string()).map_err(|e| Fail::new("C15:print_panic", e))?;
            ensure!(printed == text, "C15:reprint", "printed form differs from the diagram it was parsed from:\n{}\nvs\n{}", printed, text);
            if p.move_number >= 10 || !p.gold_to_move {
                st.nontrivial(fp_combine(p.board.fingerprint(), (p.move_number as u64).wrapping_mul(2).wrapping_add(p.gold_to_move as u64)));
            }
            Ok(())
        }

fn run_c15(cfg: &RunCfg, stats: &mut Stats) -> Outcome {
    // golden inputs first (the defects found in the design phase)
    for t in golden_c15_texts() {
        if let Err(f) = c15_text_check(&t, stats) {
            return Outcome::Violation(Violation { replay: text_replay("C15", "text", &f, &t, cfg.seed, 0), fail: f });
        }
        stats.bump("text/golden_inputs");
    }
    // every Unicode scalar value in a cell (quick; below U+3000 also as side letter and as move-number
    // digit, thorough: everywhere)
    let thorough = cfg.thorough;
    let results: Vec<(Stats, Option<(Fail, String)>)> = std::thread::scope(|sc| {
        (0..SHARDS)
            .map(|shard| {
                sc.spawn(move || {
                    install_hook();
                    let mut st = Stats::default();
                    let r = c15_all_chars(shard, SHARDS, thorough, &mut st).err();
                    (st, r)
                })
            })
            .collect::<Vec<_>>()
            .into_iter()
            .map(|h| h.join().expect("shard"))
            .collect()
    });
    for (s, r) in results {
        stats.add("text/diagrams_with_every_unicode_scalar", s.evaluations);
        let mut s = s;
        s.counters.clear();
        stats.merge(s);
        if let Some((f, text)) = r {
            return Outcome::Violation(Violation { replay: text_replay("C15", "text", &f, &text, cfg.seed, 0), fail: f });
        }
    }
    let cases = if cfg.thorough { 600_000 } else { 60_000 };
    let seed = cfg.seed;
    let mut s = Stats::default();
    let out = sharded(
        cfg,
        10,
        cases,
        c15_text,
        |c: &TextCase, st: &mut Stats| c15_text_check(&c.text, st),
        |c, f, shard| text_replay("C15", "text", f, &c.text, seed, shard),
        |c| json!({"text": c.text}),
        &mut s,
    );
    let mut pref = Stats::default();
    pref.evaluations = s.evaluations;
    pref.nontrivial = s.nontrivial;
    pref.samples = s.samples;
    for (k, v) in s.counters {
        pref.counters.insert(format!("text/{}", k), v);
    }
    stats.merge(pref);
    try_outcome!(out);
    // well-formed diagrams of legal positions (the printed form of a reachable state with that board,
    // side and move number) must be read back as exactly that position
    sharded(
        cfg,
        11,
        cases / 4,
        || gen::pos(PosMode::Any),
        |p: &gen::PosSpec, st: &mut Stats| c15_valid_diagram(p, st),
        |p, f, shard| json!({"property": "C15", "kind": "valid_diagram", "clause": f.clause, "detail": f.detail, "start": crate::drive::start_json(&gen::Start::Pos(p.clone())), "seed": seed, "shard": shard}),
        |p| json!({"valid_diagram": p.board.diagram(p.move_number, p.gold_to_move)}),
        stats,
    )
}

// =====================================================================================
// C16
// =====================================================================================

fn run_c16(cfg: &RunCfg, stats: &mut Stats, exhaustive: &mut bool, extra: &mut Value) -> Outcome {
    if let Err(f) = c16_values(stats) {
        return Outcome::Violation(Violation { replay: json!({"property": "C16", "kind": "values", "clause": f.clause, "detail": f.detail}), fail: f });
    }
    for s in golden_c16_strings() {
        if let Err(f) = c16_string(s, stats) {
            return Outcome::Violation(Violation { replay: text_replay("C16", "string", &f, s, cfg.seed, 0), fail: f });
        }
    }
    // exhaustive strings up to length 4, sharded by first symbol
    let max_len = 4;
    let results: Vec<(Stats, Option<(Fail, String)>)> = std::thread::scope(|sc| {
        (0..SHARDS)
            .map(|shard| {
                sc.spawn(move || {
                    install_hook();
                    let mut st = Stats::default();
                    let r = c16_exhaustive_strings(shard, SHARDS, max_len, &mut st).err();
                    (st, r)
                })
            })
            .collect::<Vec<_>>()
            .into_iter()
            .map(|h| h.join().expect("shard"))
            .collect()
    });
    let mut enumerated = 0u64;
    for (s, r) in results {
        enumerated += s.evaluations;
        stats.merge(s);
        if let Some((f, text)) = r {
            // the enumeration order is by length-first prefix, so this is already a shortest prefix in
            // its subtree; shrink further by trying all proper sub-sequences
            let mut best = text.clone();
            let mut bf = f.clone();
            let cs: Vec<char> = text.chars().collect();
            for mask in 1..(1u32 << cs.len()) {
                let sub: String = cs.iter().enumerate().filter(|(i, _)| mask & (1 << i) != 0).map(|(_, c)| *c).collect();
                if sub.chars().count() < best.chars().count() {
                    let mut tmp = Stats::default();
                    if let Err(f2) = c16_string(&sub, &mut tmp) {
                        if f2.clause == f.clause {
                            best = sub;
                            bf = f2;
                        }
                    }
                }
            }
            return Outcome::Violation(Violation { replay: text_replay("C16", "string", &bf, &best, cfg.seed, 0), fail: bf });
        }
    }
    stats.add("strings_enumerated_exhaustively", enumerated);
    // every Unicode scalar value alone and at each position of valid templates
    let results: Vec<(Stats, Option<(Fail, String)>)> = std::thread::scope(|sc| {
        (0..SHARDS)
            .map(|shard| {
                sc.spawn(move || {
                    install_hook();
                    let mut st = Stats::default();
                    let r = c16_all_chars(shard, SHARDS, &mut st).err();
                    (st, r)
                })
            })
            .collect::<Vec<_>>()
            .into_iter()
            .map(|h| h.join().expect("shard"))
            .collect()
    });
    let mut all_chars = 0u64;
    for (s, r) in results {
        all_chars += s.evaluations;
        stats.merge(s);
        if let Some((f, text)) = r {
            return Outcome::Violation(Violation { replay: text_replay("C16", "string", &f, &text, cfg.seed, 0), fail: f });
        }
    }
    stats.add("strings_from_all_unicode_scalars_in_templates", all_chars);
    if let Err(f) = c16_concurrent(if cfg.thorough { 40_000 } else { 2_000 }, stats) {
        return Outcome::Violation(Violation { replay: json!({"property": "C16", "kind": "concurrent", "clause": f.clause, "detail": f.detail}), fail: f });
    }
    if let Err((f, text)) = c16_dictionary(stats) {
        return Outcome::Violation(Violation { replay: text_replay("C16", "string", &f, &text, cfg.seed, 0), fail: f });
    }
    if let Err((f, what)) = c16_boundary_lengths(stats) {
        return Outcome::Violation(Violation { replay: json!({"property": "C16", "kind": "boundary_lengths", "clause": f.clause, "detail": format!("{} [input: {}]", f.detail.chars().take(300).collect::<String>(), what)}), fail: Fail::new(&f.clause, format!("{} [input: {}]", f.detail.chars().take(300).collect::<String>(), what)) });
    }
    stats.bump("strings_at_integer_boundary_lengths_checked");
    stats.sample(12, || json!({"exhaustive": "all strings of length <= 4 over the alphabet", "alphabet": ALPHABET.iter().map(|c| c.to_string()).collect::<Vec<_>>()}));
    *exhaustive = true;
    *extra = json!({"exhaustive_part": "263 actions, 64 squares, 6 pieces, 4 directions, 475255 strings (length <= 4 over 26 symbols), every Unicode scalar value alone and at each position of the templates a1n h8w d4s a1 h8 e", "sampled_part": "longer strings, arbitrary Unicode, random u64 bitboards"});
    // sampled: longer strings
    let cases = if cfg.thorough { 1_500_000 } else { 100_000 };
    let seed = cfg.seed;
    try_outcome!(sharded(
        cfg,
        10,
        cases,
        c16_long_string,
        |s: &String, st: &mut Stats| {
            st.bump("sampled_strings");
            c16_string(s, st)
        },
        |s, f, shard| text_replay("C16", "string", f, s, seed, shard),
        |s| json!(s),
        stats,
    ));
    // sampled: bitboards
    try_outcome!(sharded(
        cfg,
        11,
        cases / 4,
        || prop_oneof![2 => any::<u64>(), 1 => (any::<u64>(), any::<u64>()).prop_map(|(a, b)| a & b), 1 => (0u32..64, 0u32..64).prop_map(|(a, b)| (1u64 << a) | (1u64 << b))],
        |b: &u64, st: &mut Stats| {
            st.bump("sampled_bitboards");
            c16_bitboard(*b, st)
        },
        |b, f, shard| json!({"property": "C16", "kind": "bitboard", "clause": f.clause, "detail": f.detail, "bits": b, "seed": seed, "shard": shard}),
        |b| json!(format!("{:#018x}", b)),
        stats,
    ));
    Outcome::Pass
}

// =====================================================================================
// C17
// =====================================================================================

#[derive(Clone, Debug)]
pub struct C17Ctx {
    pub board: Board,
    pub gold: bool,
    pub step: usize,
    pub status_idx: usize,
}

/// All 641 statuses: None, 5 x 64 pushes (pushed elephant excluded: the API panics by design),
/// 5 x 64 pulls (pulling rabbit excluded).
pub fn all_statuses() -> Vec<PushPullState> {
    let mut v = vec![PushPullState::None];
    for k in [m::R, m::C, m::D, m::H, m::M] {
        for i in 0..64u8 {
            v.push(PushPullState::MustCompletePush(Square::from_index(i), kind_to_piece(k)));
        }
    }
    for k in [m::C, m::D, m::H, m::M, m::E] {
        for i in 0..64u8 {
            v.push(PushPullState::PossiblePull(Square::from_index(i), kind_to_piece(k)));
        }
    }
    v
}

/// A play-phase state built with the public constructors only.
pub fn build_state(b: &Board, gold: bool, step: usize, status: PushPullState) -> GameState {
    let pb = piece_board_of(b);
    let hash = Zobrist::from_piece_board(pb.piece_board(), gold, step);
    let start_hash = Zobrist::from_piece_board(pb.piece_board(), gold, 0);
    let history = List::new().append(start_hash);
    let prev: Vec<PieceBoard> = (0..step).map(|_| pb.clone()).collect();
    let phase = Phase::PlayPhase(PlayPhase::new(start_hash, history, prev, status, false));
    GameState::new(gold, 2, phase, pb, hash)
}

fn th(b: &Board, gold: bool, step: usize, status: PushPullState) -> Result<u64, Fail> {
    guard(|| build_state(b, gold, step, status).transposition_hash()).map_err(|p| Fail::new("C17:panic", format!("building/hashing a state panicked: {}", p)))
}

pub fn c17_context(c: &C17Ctx, st: &mut Stats) -> Check {
    let statuses = all_statuses();
    let status = statuses[c.status_idx % statuses.len()];
    let ctx = format!("[{} | {} to move | step {} | {:?}]", board_text(&c.board), if c.gold { "gold" } else { "silver" }, c.step, status);
    let ctx_fp = fp_combine(c.board.fingerprint(), (c.gold as u64) << 20 | (c.step as u64) << 16 | c.status_idx as u64);
    let base = th(&c.board, c.gold, c.step, status)?;
    // 1. content of one square: 13 contents pairwise different
    let contents: Vec<u8> = std::iter::once(m::EMPTY).chain((1..=6).map(|k| m::mk(true, k))).chain((1..=6).map(|k| m::mk(false, k))).collect();
    for sq in 0..64u8 {
        let mut hs = vec![];
        for &cc in contents.iter() {
            let mut b = c.board;
            b.0[sq as usize] = cc;
            hs.push(th(&b, c.gold, c.step, status)?);
        }
        for i in 0..13 {
            for j in (i + 1)..13 {
                st.eval();
                ensure!(hs[i] != hs[j], "C17:square_content", "states that differ only in the content of {} ('{}' vs '{}') have the same transposition hash {:#018x} in context {}", m::sq_name(sq), m::code_letter(contents[i]), m::code_letter(contents[j]), hs[i], ctx);
            }
        }
        st.nontrivial(fp_combine(ctx_fp, 1000 + sq as u64));
    }
    // 2. side
    st.eval();
    ensure!(th(&c.board, !c.gold, c.step, status)? != base, "C17:side", "states that differ only in the side to move have the same transposition hash in context {}", ctx);
    st.nontrivial(fp_combine(ctx_fp, 2000));
    // 3. steps
    let mut hs = vec![];
    for s in 0..4 {
        hs.push(th(&c.board, c.gold, s, status)?);
    }
    for i in 0..4 {
        for j in (i + 1)..4 {
            st.eval();
            ensure!(hs[i] != hs[j], "C17:step", "states that differ only in the step number ({} vs {}) have the same transposition hash in context {}", i, j, ctx);
        }
    }
    st.nontrivial(fp_combine(ctx_fp, 3000));
    // 4. statuses: all 641 pairwise different
    let mut hs: Vec<(u64, usize)> = vec![];
    for (i, s) in statuses.iter().enumerate() {
        hs.push((th(&c.board, c.gold, c.step, *s)?, i));
    }
    st.add("status_pairs", (641 * 640 / 2) as u64);
    if !st.frozen {
        st.evaluations += 641 * 640 / 2;
    }
    hs.sort();
    for w in hs.windows(2) {
        ensure!(w[0].0 != w[1].0, "C17:status", "states that differ only in the pending push/pull ({:?} vs {:?}) have the same transposition hash in context {}", statuses[w[0].1], statuses[w[1].1], ctx);
    }
    st.nontrivial(fp_combine(ctx_fp, 4000));
    // 5. one piece standing on a different square: for each of the 12 piece codes, the piece added on
    // each empty square gives pairwise different hashes
    for &cc in contents.iter().skip(1) {
        let mut hs: Vec<(u64, u8)> = vec![];
        for sq in 0..64u8 {
            if c.board.at(sq) == m::EMPTY {
                let mut b = c.board;
                b.0[sq as usize] = cc;
                hs.push((th(&b, c.gold, c.step, status)?, sq));
            }
        }
        let n = hs.len() as u64;
        if !st.frozen {
            st.evaluations += n * n.saturating_sub(1) / 2;
        }
        hs.sort();
        for w in hs.windows(2) {
            ensure!(w[0].0 != w[1].0, "C17:relocation", "states that differ only by a '{}' standing on {} instead of {} have the same transposition hash in context {}", m::code_letter(cc), m::sq_name(w[0].1), m::sq_name(w[1].1), ctx);
        }
        st.nontrivial(fp_combine(ctx_fp, 5000 + cc as u64));
    }
    // 6. the same differences asked for back to back, in both orders: the two states of a pair are built
    // and hashed one right after the other with nothing in between, as a client comparing two candidate
    // positions does (a value remembered from the previous call must not leak into the next one)
    let pair = |a: (&Board, bool, usize, PushPullState), b: (&Board, bool, usize, PushPullState)| -> Result<bool, Fail> {
        let ha = th(a.0, a.1, a.2, a.3)?;
        let hb = th(b.0, b.1, b.2, b.3)?;
        Ok(ha != hb)
    };
    for sq in 0..64u8 {
        for &ca in contents.iter() {
            for &cb in contents.iter() {
                if ca == cb {
                    continue;
                }
                let (mut a, mut b) = (c.board, c.board);
                a.0[sq as usize] = ca;
                b.0[sq as usize] = cb;
                st.eval();
                ensure!(pair((&a, c.gold, c.step, status), (&b, c.gold, c.step, status))?, "C17:square_content", "asked back to back, states that differ only in the content of {} ('{}' then '{}') have the same transposition hash in context {}", m::sq_name(sq), m::code_letter(ca), m::code_letter(cb), ctx);
            }
        }
    }
    for (ga, gb) in [(true, false), (false, true)] {
        st.eval();
        ensure!(pair((&c.board, ga, c.step, status), (&c.board, gb, c.step, status))?, "C17:side", "asked back to back, states that differ only in the side to move have the same transposition hash in context {}", ctx);
    }
    for i in 0..4 {
        for j in 0..4 {
            if i != j {
                st.eval();
                ensure!(pair((&c.board, c.gold, i, status), (&c.board, c.gold, j, status))?, "C17:step", "asked back to back, states that differ only in the step number ({} then {}) have the same transposition hash in context {}", i, j, ctx);
            }
        }
    }
    for k in 0..statuses.len() {
        let (sa, sb) = (statuses[k], statuses[(k + 1) % statuses.len()]);
        for (x, y) in [(sa, sb), (sb, sa), (status, sa), (sa, status)] {
            if x != y {
                st.eval();
                ensure!(pair((&c.board, c.gold, c.step, x), (&c.board, c.gold, c.step, y))?, "C17:status", "asked back to back, states that differ only in the pending push/pull ({:?} then {:?}) have the same transposition hash in context {}", x, y, ctx);
            }
        }
    }
    for &cc in contents.iter().skip(1) {
        let empties: Vec<u8> = (0..64u8).filter(|&q| c.board.at(q) == m::EMPTY).collect();
        for w in 0..empties.len() {
            // each empty square against its successor in the list and against a far one, both orders
            for other in [empties[(w + 1) % empties.len()], empties[(w * 7 + 3) % empties.len()]] {
                if other == empties[w] {
                    continue;
                }
                let (mut a, mut b) = (c.board, c.board);
                a.0[empties[w] as usize] = cc;
                b.0[other as usize] = cc;
                st.eval();
                ensure!(pair((&a, c.gold, c.step, status), (&b, c.gold, c.step, status))? && pair((&b, c.gold, c.step, status), (&a, c.gold, c.step, status))?, "C17:relocation", "asked back to back, states that differ only by a '{}' standing on {} instead of {} have the same transposition hash in context {}", m::code_letter(cc), m::sq_name(empties[w]), m::sq_name(other), ctx);
            }
        }
    }
    st.nontrivial(fp_combine(ctx_fp, 6000));
    Ok(())
}

fn run_c17(cfg: &RunCfg, stats: &mut Stats, exhaustive: &mut bool, extra: &mut Value) -> Outcome {
    // fixed contexts: empty board and the opening array
    let mut opening = Board::empty();
    let back = [m::H, m::C, m::D, m::M, m::E, m::D, m::C, m::H];
    for f in 0..8u8 {
        opening.0[f as usize] = m::mk(false, back[f as usize]);
        opening.0[(8 + f) as usize] = m::mk(false, m::R);
        opening.0[(48 + f) as usize] = m::mk(true, m::R);
        opening.0[(56 + f) as usize] = m::mk(true, back[f as usize]);
    }
    for (b, name) in [(Board::empty(), "empty"), (opening, "opening")] {
        let c = C17Ctx { board: b, gold: true, step: 0, status_idx: 0 };
        if let Err(f) = c17_context(&c, stats) {
            return Outcome::Violation(Violation { replay: c17_replay(&c, &f, cfg.seed, 0), fail: f });
        }
        stats.bump(&format!("fixed_context_{}", name));
    }
    let cases = if cfg.thorough { 4000 } else { 150 };
    let seed = cfg.seed;
    let out = sharded(
        cfg,
        10,
        cases,
        || (gen::raw_pos(), any::<bool>(), 0usize..4, 0usize..641).prop_map(|(raw, gold, step, status_idx)| C17Ctx { board: gen::build_pos(&raw, PosMode::Any).board, gold, step, status_idx }),
        |c: &C17Ctx, st: &mut Stats| {
            st.bump("generated_contexts");
            c17_context(c, st)
        },
        |c, f, shard| c17_replay(c, f, seed, shard),
        |c| json!({"context_board": board_text(&c.board), "gold_to_move": c.gold, "step": c.step, "status_idx": c.status_idx}),
        stats,
    );
    *exhaustive = true;
    *extra = json!({"exhaustive_part": "for every context: 64 squares x C(13,2) contents, side, C(4,2) steps, C(641,2) statuses, 12 piece codes x all pairs of empty squares", "sampled_part": "contexts (board, side, step, status)"});
    out
}

fn c17_replay(c: &C17Ctx, f: &Fail, seed: u64, shard: usize) -> Value {
    json!({"property": "C17", "kind": "context", "clause": f.clause, "detail": f.detail,
        "start": crate::drive::start_json(&gen::Start::Pos(gen::PosSpec { board: c.board, gold_to_move: c.gold, move_number: 2, notation: 0 })),
        "step": c.step, "status_idx": c.status_idx, "seed": seed, "shard": shard})
}

/// Runs a cargo sub-build with the same repo override / target dir as the harness itself.
pub fn cargo_cmd(toolchain: Option<&str>) -> Command {
    let mut c = Command::new("cargo");
    if let Some(t) = toolchain {
        c.arg(t);
    }
    c.env("CARGO_NET_OFFLINE", "true");
    c
}

pub fn repo_override_args() -> Vec<String> {
    match std::env::var("VERIF_REPO") {
        Ok(r) if !r.is_empty() => vec!["--config".into(), format!("paths=[\"{}\"]", r)],
        _ => vec![],
    }
}

pub fn harness_dir() -> std::path::PathBuf {
    verif_root_static().join("harness")
}

/// The directory of the checked-in framework (not VERIF_ROOT, which mutant runs redirect).
pub fn verif_root_static() -> std::path::PathBuf {
    std::env::var("VERIF_HOME").map(std::path::PathBuf::from).unwrap_or_else(|_| std::path::PathBuf::from("/verif"))
}

pub fn target_dir() -> std::path::PathBuf {
    std::env::var("VERIF_TARGET_DIR_RESOLVED").map(std::path::PathBuf::from).unwrap_or_else(|_| harness_dir().join("target"))
}
