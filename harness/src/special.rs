//! Properties that are not (only) walker based: C04 constructed positions, C15/C16 text,
//! C17 feature enumeration, C18 concurrency, C20 long games.
use crate::core::{Fail, Stats};
use crate::registry;
use crate::runner::{Outcome, RunCfg};
use serde_json::Value;

pub fn handles(_id: &str) -> bool {
    false
}

pub fn rule(id: &str) -> String {
    registry::rule(id).to_string()
}

pub fn assumptions(_id: &str) -> Vec<String> {
    vec![]
}

pub fn run(_cfg: &RunCfg, _stats: &mut Stats, _exhaustive: &mut bool, _extra: &mut Value) -> Outcome {
    Outcome::Pass
}

pub fn replay(_id: &str, _v: &Value) -> Result<Option<Fail>, String> {
    Err("unknown replay kind".into())
}
