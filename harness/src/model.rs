//! Reference model of the Arimaa rules (DESIGN.md §3.1).
//!
//! Independent of the engine: a mailbox array `[u8; 64]`, neighbours by (file, rank)
//! arithmetic, no bitboards, no hashes. The only thing shared with the engine is the
//! numbering convention C10 states: index i <-> file i mod 8, rank 8 - i div 8.
//!
//! Rule sources: official Arimaa rules (arimaa.com/arimaa/learn/rulesIntro.html):
//!  * "A piece which is adjacent (orthogonally) to a stronger enemy piece is frozen, unless
//!    it is also adjacent to a friendly piece."
//!  * "rabbits cannot move backward"
//!  * "A push or pull requires two steps and must be completed within the same turn. Any
//!    combination of pushing and pulling can be done in the same turn. However, when your
//!    piece is finishing a push it cannot pull a piece along with it."
//!  * "a piece that is sitting on a trap square is removed when there is no friendly piece
//!    orthogonally adjacent"
//!  * pulling piece may complete its pull even if it was captured by its own step.
//!  * a turn must change the position; a turn may not create a position (board + side to
//!    move) for the third time.
//!  * game end order checked at the end of a turn (player A moved, B to move): rabbit of A
//!    on goal, rabbit of B on goal, B has no rabbits, A has no rabbits, B has no legal step.

use std::collections::{BTreeSet, HashMap};
use std::sync::Arc;

pub const EMPTY: u8 = 0;
pub const R: u8 = 1;
pub const C: u8 = 2;
pub const D: u8 = 3;
pub const H: u8 = 4;
pub const M: u8 = 5;
pub const E: u8 = 6;
pub const SILVER: u8 = 8;

pub const TRAPS: [u8; 4] = [18, 21, 42, 45]; // c6 f6 c3 f3

/// number of pieces of each kind (index = kind) a side owns at most
pub const COMPLEMENT: [u8; 7] = [0, 8, 2, 2, 2, 1, 1];

#[inline]
pub fn is_gold(code: u8) -> bool {
    code != EMPTY && code < SILVER
}
#[inline]
pub fn kind(code: u8) -> u8 {
    code & 7
}
#[inline]
pub fn mk(gold: bool, kind: u8) -> u8 {
    if gold {
        kind
    } else {
        kind | SILVER
    }
}
#[inline]
pub fn file_of(sq: u8) -> u8 {
    sq % 8
}
/// rank as printed: 1..=8
#[inline]
pub fn rank_of(sq: u8) -> u8 {
    8u8.saturating_sub(sq / 8)
}
pub fn sq_name(sq: u8) -> String {
    if sq >= 64 {
        // the engine can hand out a Square outside the board when it is broken
        return format!("<square#{}>", sq);
    }
    format!("{}{}", (b'a' + file_of(sq)) as char, rank_of(sq))
}
pub fn code_letter(code: u8) -> char {
    let l = match kind(code) {
        R => 'r',
        C => 'c',
        D => 'd',
        H => 'h',
        M => 'm',
        E => 'e',
        _ => '?',
    };
    if is_gold(code) {
        l.to_ascii_uppercase()
    } else {
        l
    }
}
pub fn is_trap(sq: u8) -> bool {
    TRAPS.contains(&sq)
}

/// Directions in the order n, e, s, w (0..4).
pub const DIR_CHARS: [char; 4] = ['n', 'e', 's', 'w'];

/// Neighbour of `sq` in direction `dir`, by file/rank arithmetic with bounds checks.
#[inline]
pub fn neighbour(sq: u8, dir: u8) -> Option<u8> {
    if sq >= 64 {
        return None;
    }
    let f = (sq % 8) as i8;
    let r = (sq / 8) as i8; // 0 = rank 8
    let (nf, nr) = match dir {
        0 => (f, r - 1), // north: towards rank 8
        1 => (f + 1, r),
        2 => (f, r + 1), // south: towards rank 1
        3 => (f - 1, r),
        _ => unreachable!(),
    };
    if (0..8).contains(&nf) && (0..8).contains(&nr) {
        Some((nr * 8 + nf) as u8)
    } else {
        None
    }
}
pub fn neighbours(sq: u8) -> impl Iterator<Item = u8> {
    (0..4u8).filter_map(move |d| neighbour(sq, d))
}
pub fn opposite(dir: u8) -> u8 {
    (dir + 2) % 4
}

#[derive(Clone, Copy, PartialEq, Eq, Hash, PartialOrd, Ord, Debug)]
pub struct Board(pub [u8; 64]);

impl Board {
    pub fn empty() -> Board {
        Board([EMPTY; 64])
    }
    #[inline]
    pub fn at(&self, sq: u8) -> u8 {
        // squares outside the board (a broken engine can name them) hold nothing
        self.0.get(sq as usize).copied().unwrap_or(EMPTY)
    }
    pub fn has_friend_adjacent(&self, sq: u8, gold: bool) -> bool {
        neighbours(sq).any(|n| {
            let c = self.at(n);
            c != EMPTY && is_gold(c) == gold
        })
    }
    /// frozen: adjacent to a strictly stronger enemy piece and not adjacent to a friendly piece
    pub fn is_frozen(&self, sq: u8) -> bool {
        let c = self.at(sq);
        debug_assert!(c != EMPTY);
        let g = is_gold(c);
        if self.has_friend_adjacent(sq, g) {
            return false;
        }
        neighbours(sq).any(|n| {
            let o = self.at(n);
            o != EMPTY && is_gold(o) != g && kind(o) > kind(c)
        })
    }
    /// Moves the piece on `from` one square in `dir` (mechanically), then removes every piece on a
    /// trap without a friendly neighbour. Returns the new board and the removed pieces.
    /// Precondition: `from` occupied, target on board and empty.
    pub fn step(&self, from: u8, dir: u8) -> Option<(Board, Vec<(u8, u8)>)> {
        let to = neighbour(from, dir)?;
        let c = self.at(from);
        if c == EMPTY || self.at(to) != EMPTY {
            return None;
        }
        let mut b = *self;
        b.0[from as usize] = EMPTY;
        b.0[to as usize] = c;
        let mut removed = vec![];
        // decide all removals on the board after the move, then remove (simultaneous)
        for &t in TRAPS.iter() {
            let tc = b.at(t);
            if tc != EMPTY && !b.has_friend_adjacent(t, is_gold(tc)) {
                removed.push((t, tc));
            }
        }
        for &(t, _) in removed.iter() {
            b.0[t as usize] = EMPTY;
        }
        Some((b, removed))
    }
    pub fn count(&self, code: u8) -> usize {
        self.0.iter().filter(|&&c| c == code).count()
    }
    pub fn piece_count(&self) -> usize {
        self.0.iter().filter(|&&c| c != EMPTY).count()
    }
    pub fn has_rabbit(&self, gold: bool) -> bool {
        self.count(mk(gold, R)) > 0
    }
    /// a rabbit of `gold` stands on its goal rank (rank 8 for Gold, rank 1 for Silver)
    pub fn rabbit_on_goal(&self, gold: bool) -> bool {
        let code = mk(gold, R);
        let row = if gold { 0 } else { 7 };
        (0..8).any(|f| self.at(row * 8 + f) == code)
    }
    /// No piece on a trap without a friendly neighbour.
    pub fn traps_legal(&self) -> bool {
        TRAPS.iter().all(|&t| {
            let c = self.at(t);
            c == EMPTY || self.has_friend_adjacent(t, is_gold(c))
        })
    }
    pub fn within_complement(&self) -> bool {
        for gold in [true, false] {
            for k in R..=E {
                if self.count(mk(gold, k)) > COMPLEMENT[k as usize] as usize {
                    return false;
                }
            }
        }
        true
    }
    /// The diagram in the notation of the engine's documentation.
    pub fn diagram(&self, move_number: usize, gold_to_move: bool) -> String {
        let mut s = String::new();
        s.push_str(&format!("{}{}\n", move_number, if gold_to_move { 'g' } else { 's' }));
        s.push_str(" +-----------------+\n");
        for row in 0..8u8 {
            s.push_str(&format!("{}|", 8 - row));
            for f in 0..8u8 {
                let sq = row * 8 + f;
                let c = self.at(sq);
                let ch = if c != EMPTY {
                    code_letter(c)
                } else if is_trap(sq) {
                    'x'
                } else {
                    ' '
                };
                s.push(' ');
                s.push(ch);
            }
            s.push_str(" |\n");
        }
        s.push_str(" +-----------------+\n");
        s.push_str("   a b c d e f g h\n");
        s
    }
    /// The same position in one of the notations the parser accepts (all of them occur in the
    /// repository's documentation or tests): bit 0 upper-case 'X' for an empty trap, bit 1 side letters
    /// w/b instead of g/s, bit 2 every line indented, bit 3 header left out (only for "2g", the
    /// parser's default), bit 4 blank instead of 'x' for an empty trap, bit 5 a leading empty line.
    pub fn diagram_styled(&self, move_number: usize, gold_to_move: bool, notation: u8) -> String {
        let plain = self.diagram(move_number, gold_to_move);
        if notation == 0 {
            return plain;
        }
        let mut lines: Vec<String> = plain.lines().map(|l| l.to_string()).collect();
        if notation & 2 != 0 {
            let h = &mut lines[0];
            let letter = if gold_to_move { 'w' } else { 'b' };
            h.pop();
            h.push(letter);
        }
        for l in lines.iter_mut().skip(2).take(8) {
            if notation & 16 != 0 {
                *l = l.replace('x', " ");
            } else if notation & 1 != 0 {
                *l = l.replace('x', "X");
            }
        }
        if notation & 8 != 0 && move_number == 2 && gold_to_move {
            lines.remove(0);
        }
        let indent = if notation & 4 != 0 { "    " } else { "" };
        let mut out = String::new();
        if notation & 32 != 0 {
            out.push('\n');
        }
        for l in lines {
            out.push_str(indent);
            out.push_str(&l);
            out.push('\n');
        }
        out
    }

    pub fn fingerprint(&self) -> u64 {
        let mut h: u64 = 0xcbf29ce484222325;
        for &c in self.0.iter() {
            h ^= c as u64;
            h = h.wrapping_mul(0x100000001b3);
        }
        h
    }
}

#[derive(Clone, Copy, PartialEq, Eq, Hash, PartialOrd, Ord, Debug)]
pub enum MAction {
    Place(u8),
    Step { from: u8, dir: u8 },
    Pass,
}

impl MAction {
    pub fn text(&self) -> String {
        match *self {
            MAction::Place(k) => code_letter(k | SILVER).to_string(),
            MAction::Step { from, dir } => format!("{}{}", sq_name(from), DIR_CHARS[dir as usize]),
            MAction::Pass => "p".to_string(),
        }
    }
}

/// Parse state of the turn so far (nondeterministic automaton of the turn grammar).
#[derive(Clone, Copy, PartialEq, Eq, Hash, PartialOrd, Ord, Debug)]
pub enum Parse {
    /// every element so far is complete and the last one cannot be extended to a pull
    Free,
    /// the last element is a single step of a non-rabbit friendly piece that left `from`
    Stepped { from: u8, kind: u8 },
    /// an enemy piece of `kind` was displaced from `sq`; a stronger friendly piece must step in
    PushPending { sq: u8, kind: u8 },
}

/// The deterministic status C12 describes.
#[derive(Clone, Copy, PartialEq, Eq, Hash, PartialOrd, Ord, Debug)]
pub enum Status {
    None,
    PossiblePull { sq: u8, kind: u8 },
    MustCompletePush { sq: u8, kind: u8 },
}

#[derive(Clone, Copy, PartialEq, Eq, Debug, PartialOrd, Ord)]
pub enum Winner {
    Gold,
    Silver,
}

#[derive(Clone, Copy, PartialEq, Eq, Debug, PartialOrd, Ord)]
pub enum Withheld {
    SameAsTurnStart,
    ThirdOccurrence,
}

#[derive(Clone, Default)]
pub struct History {
    /// complete, never truncated list of start-of-turn (board, gold to move)
    pub list: Vec<(Board, bool)>,
    pub counts: HashMap<(Board, bool), u32>,
}

impl History {
    pub fn push(&mut self, b: Board, gold: bool) {
        self.list.push((b, gold));
        *self.counts.entry((b, gold)).or_insert(0) += 1;
    }
    pub fn count(&self, b: &Board, gold: bool) -> u32 {
        self.counts.get(&(*b, gold)).copied().unwrap_or(0)
    }
}

#[derive(Clone)]
pub struct Model {
    pub setup: bool,
    pub board: Board,
    pub gold_to_move: bool,
    pub step: usize,
    pub move_number: usize,
    /// boards after 0..=step steps of the current turn (play phase)
    pub turn_boards: Vec<Board>,
    pub parse: BTreeSet<Parse>,
    pub status: Status,
    pub history: Arc<History>,
    pub captured_this_turn: bool,
    /// number of captures since the history began (for statistics)
    pub captures_total: u32,
    /// turns completed since the start
    pub turns_completed: u32,
}

pub fn setup_square(gold: bool, n: usize) -> u8 {
    // Gold: a2..h2 then a1..h1 ; Silver: a8..h8 then a7..h7
    let f = (n % 8) as u8;
    let second = n >= 8;
    let rank = if gold {
        if second {
            1
        } else {
            2
        }
    } else if second {
        7
    } else {
        8
    };
    (8 - rank) * 8 + f
}

impl Model {
    pub fn initial() -> Model {
        Model {
            setup: true,
            board: Board::empty(),
            gold_to_move: true,
            step: 0,
            move_number: 1,
            turn_boards: vec![],
            parse: BTreeSet::new(),
            status: Status::None,
            history: Arc::new(History::default()),
            captured_this_turn: false,
            captures_total: 0,
            turns_completed: 0,
        }
    }

    /// A play-phase position at the start of a turn, as if parsed from a diagram.
    pub fn from_position(board: Board, gold_to_move: bool, move_number: usize) -> Model {
        let mut h = History::default();
        h.push(board, gold_to_move);
        let mut parse = BTreeSet::new();
        parse.insert(Parse::Free);
        Model {
            setup: false,
            board,
            gold_to_move,
            step: 0,
            move_number,
            turn_boards: vec![board],
            parse,
            status: Status::None,
            history: Arc::new(h),
            captured_this_turn: false,
            captures_total: 0,
            turns_completed: 0,
        }
    }

    // ---------------------------------------------------------------- setup

    pub fn placed_by_mover(&self) -> usize {
        self.board.0.iter().filter(|&&c| c != EMPTY && is_gold(c) == self.gold_to_move).count()
    }

    fn setup_offered(&self) -> BTreeSet<MAction> {
        let mut s = BTreeSet::new();
        for k in R..=E {
            if self.board.count(mk(self.gold_to_move, k)) < COMPLEMENT[k as usize] as usize {
                s.insert(MAction::Place(k));
            }
        }
        s
    }

    // ---------------------------------------------------------------- play: step legality

    /// Transition of one parse state under a step of a *friendly* piece `c` from `from` to the
    /// empty square `to`; None = illegal in that parse.
    fn friendly_step(&self, p: Parse, from: u8, dir: u8, to: u8, c: u8) -> Option<Parse> {
        let k = kind(c);
        if self.board.is_frozen(from) {
            return None;
        }
        match p {
            Parse::Free | Parse::Stepped { .. } => {
                if k == R {
                    // rabbits never towards their own home rank
                    let backward = if self.gold_to_move { 2 } else { 0 };
                    if dir == backward {
                        return None;
                    }
                    Some(Parse::Free)
                } else {
                    Some(Parse::Stepped { from, kind: k })
                }
            }
            Parse::PushPending { sq, kind: vk } => {
                if to == sq && k > vk {
                    Some(Parse::Free)
                } else {
                    None
                }
            }
        }
    }

    /// All parse states reachable from `p` by the step (an enemy step can be a pull completion
    /// and/or the start of a push).
    fn parse_step_all(&self, p: Parse, from: u8, dir: u8) -> Vec<Parse> {
        let b = &self.board;
        let c = b.at(from);
        if c == EMPTY {
            return vec![];
        }
        let to = match neighbour(from, dir) {
            Some(t) => t,
            None => return vec![],
        };
        if b.at(to) != EMPTY {
            return vec![];
        }
        let friendly = is_gold(c) == self.gold_to_move;
        if friendly {
            return self.friendly_step(p, from, dir, to, c).into_iter().collect();
        }
        let vk = kind(c);
        let mut out = vec![];
        match p {
            Parse::PushPending { .. } => {}
            Parse::Free | Parse::Stepped { .. } => {
                if let Parse::Stepped { from: left, kind: pk } = p {
                    if to == left && vk < pk {
                        out.push(Parse::Free); // pull completed
                    }
                }
                // start of a push: needs room for the completion inside the turn
                if self.step + 1 < 4 && self.push_possible(from, dir) {
                    out.push(Parse::PushPending { sq: from, kind: vk });
                }
            }
        }
        out
    }

    /// Enemy piece on `from` can be displaced in `dir` as the first half of a push: some friendly
    /// piece adjacent to `from`, strictly stronger, unfrozen now, and still able (unfrozen) to step
    /// into `from` after the displacement.
    fn push_possible(&self, from: u8, dir: u8) -> bool {
        let b = &self.board;
        let v = b.at(from);
        let after = match b.step(from, dir) {
            Some((a, _)) => a,
            None => return false,
        };
        neighbours(from).any(|n| {
            let y = b.at(n);
            y != EMPTY
                && is_gold(y) == self.gold_to_move
                && kind(y) > kind(v)
                && !b.is_frozen(n)
                && after.at(n) == y
                && !after.is_frozen(n)
        })
    }

    /// Rule-only offered set (repetition rules aside) = union over the parse states.
    pub fn offered_norep(&self) -> BTreeSet<MAction> {
        if self.setup {
            return self.setup_offered();
        }
        let mut s = BTreeSet::new();
        for from in 0..64u8 {
            if self.board.at(from) == EMPTY {
                continue;
            }
            for dir in 0..4u8 {
                if self.parse.iter().any(|&p| !self.parse_step_all(p, from, dir).is_empty()) {
                    s.insert(MAction::Step { from, dir });
                }
            }
        }
        if self.pass_legal_norep() {
            s.insert(MAction::Pass);
        }
        s
    }

    pub fn pass_legal_norep(&self) -> bool {
        !self.setup
            && self.step >= 1
            && self.parse.iter().any(|p| !matches!(p, Parse::PushPending { .. }))
    }

    pub fn push_pending_in_every_parse(&self) -> bool {
        !self.parse.is_empty() && self.parse.iter().all(|p| matches!(p, Parse::PushPending { .. }))
    }

    /// Does the action end the turn?
    pub fn ends_turn(&self, a: MAction) -> bool {
        match a {
            MAction::Pass => true,
            MAction::Step { .. } => !self.setup && self.step == 3,
            MAction::Place(_) => false,
        }
    }

    /// Board that results from the action (None if it cannot be applied mechanically).
    pub fn result_board(&self, a: MAction) -> Option<(Board, Vec<(u8, u8)>)> {
        match a {
            MAction::Pass => Some((self.board, vec![])),
            MAction::Step { from, dir } => self.board.step(from, dir),
            MAction::Place(_) => None,
        }
    }

    /// Exact repetition predicate of C05/C06: a turn-ending action is withheld iff its result equals
    /// the board at step 0 of this turn, or (result, other side) already occurred >= 2 times at a
    /// start of turn.
    pub fn withheld(&self, a: MAction) -> Option<Withheld> {
        if self.setup || !self.ends_turn(a) {
            return None;
        }
        let (rb, _) = self.result_board(a)?;
        if rb == self.turn_boards[0] {
            return Some(Withheld::SameAsTurnStart);
        }
        if self.history.count(&rb, !self.gold_to_move) >= 2 {
            return Some(Withheld::ThirdOccurrence);
        }
        None
    }

    /// Offered set with the repetition rules.
    pub fn offered(&self) -> BTreeSet<MAction> {
        self.offered_norep().into_iter().filter(|&a| self.withheld(a).is_none()).collect()
    }

    // ---------------------------------------------------------------- results

    /// The ladder of C04, to be asked at step 0 of the play phase.
    /// Returns (winner, rung 1..=5) or None.
    pub fn result_at_turn_start(&self) -> Option<(Winner, u8)> {
        debug_assert!(!self.setup && self.step == 0);
        let mover = self.gold_to_move;
        let last = !mover;
        let w = |gold: bool| if gold { Winner::Gold } else { Winner::Silver };
        if self.board.rabbit_on_goal(last) {
            return Some((w(last), 1));
        }
        if self.board.rabbit_on_goal(mover) {
            return Some((w(mover), 2));
        }
        if !self.board.has_rabbit(mover) {
            return Some((w(last), 3));
        }
        if !self.board.has_rabbit(last) {
            return Some((w(mover), 4));
        }
        if self.offered_norep().is_empty() {
            return Some((w(last), 5));
        }
        None
    }

    /// Result the engine is expected to report in any state (C04 + C07).
    pub fn expected_result(&self) -> Option<Winner> {
        if self.setup {
            return None;
        }
        if self.step == 0 {
            return self.result_at_turn_start().map(|x| x.0);
        }
        if self.offered().is_empty() {
            Some(if self.gold_to_move { Winner::Silver } else { Winner::Gold })
        } else {
            None
        }
    }

    // ---------------------------------------------------------------- applying

    /// Applies an action. For steps the move is applied mechanically even if the model does not
    /// consider it legal (the parse set then becomes empty); returns Err only if it cannot be
    /// applied at all.
    pub fn apply(&mut self, a: MAction) -> Result<Vec<(u8, u8)>, String> {
        match a {
            MAction::Place(k) => {
                if !self.setup {
                    return Err("placement in play phase".into());
                }
                let n = self.placed_by_mover();
                if n >= 16 {
                    return Err("placement beyond 16".into());
                }
                let sq = setup_square(self.gold_to_move, n);
                self.board.0[sq as usize] = mk(self.gold_to_move, k);
                if n == 15 {
                    if self.gold_to_move {
                        self.gold_to_move = false;
                    } else {
                        // play begins
                        self.gold_to_move = true;
                        self.setup = false;
                        self.move_number = 2;
                        self.step = 0;
                        self.turn_boards = vec![self.board];
                        self.parse = [Parse::Free].into_iter().collect();
                        self.status = Status::None;
                        let mut h = History::default();
                        h.push(self.board, true);
                        self.history = Arc::new(h);
                    }
                }
                Ok(vec![])
            }
            MAction::Pass => {
                if self.setup {
                    return Err("pass in setup".into());
                }
                self.end_turn();
                Ok(vec![])
            }
            MAction::Step { from, dir } => {
                if self.setup {
                    return Err("step in setup".into());
                }
                let (nb, removed) =
                    self.board.step(from, dir).ok_or_else(|| "step not applicable".to_string())?;
                // parse set and status are computed on the board before the step
                let mut np = BTreeSet::new();
                for &p in self.parse.iter() {
                    for q in self.parse_step_all(p, from, dir) {
                        np.insert(q);
                    }
                }
                let c = self.board.at(from);
                let to = neighbour(from, dir).unwrap();
                let friendly = is_gold(c) == self.gold_to_move;
                let nstatus = if !friendly {
                    let completes_pull = match self.status {
                        Status::PossiblePull { sq, kind: pk } => to == sq && kind(c) < pk,
                        _ => false,
                    };
                    if completes_pull {
                        Status::None
                    } else {
                        Status::MustCompletePush { sq: from, kind: kind(c) }
                    }
                } else {
                    let completes_push = matches!(self.status, Status::MustCompletePush { .. });
                    if !completes_push && kind(c) != R {
                        Status::PossiblePull { sq: from, kind: kind(c) }
                    } else {
                        Status::None
                    }
                };
                self.board = nb;
                if !removed.is_empty() {
                    self.captured_this_turn = true;
                    self.captures_total += removed.len() as u32;
                }
                if self.step == 3 {
                    self.end_turn();
                } else {
                    self.step += 1;
                    self.turn_boards.push(nb);
                    self.parse = np;
                    self.status = nstatus;
                }
                Ok(removed)
            }
        }
    }

    fn end_turn(&mut self) {
        if !self.gold_to_move {
            self.move_number += 1;
        }
        self.gold_to_move = !self.gold_to_move;
        self.step = 0;
        self.turn_boards = vec![self.board];
        self.parse = [Parse::Free].into_iter().collect();
        self.status = Status::None;
        self.captured_this_turn = false;
        self.turns_completed += 1;
        Arc::make_mut(&mut self.history).push(self.board, self.gold_to_move);
    }

    pub fn fingerprint(&self) -> u64 {
        let mut h = self.board.fingerprint();
        let mut mix = |v: u64| {
            h ^= v.wrapping_add(0x9e3779b97f4a7c15).wrapping_add(h << 6).wrapping_add(h >> 2);
        };
        mix(self.gold_to_move as u64);
        mix(self.step as u64);
        mix(self.setup as u64);
        for p in self.parse.iter() {
            let v = match *p {
                Parse::Free => 1,
                Parse::Stepped { from, kind } => 2 + ((from as u64) << 8) + ((kind as u64) << 16),
                Parse::PushPending { sq, kind } => 3 + ((sq as u64) << 8) + ((kind as u64) << 16),
            };
            mix(v);
        }
        h
    }
}

#[cfg(test)]
mod tests {
    use super::*;

    fn sq(name: &str) -> u8 {
        let b = name.as_bytes();
        let f = b[0] - b'a';
        let r = b[1] - b'0';
        (8 - r) * 8 + f
    }
    fn board(pieces: &[(&str, char)]) -> Board {
        let mut b = Board::empty();
        for (n, ch) in pieces {
            let k = match ch.to_ascii_lowercase() {
                'r' => R,
                'c' => C,
                'd' => D,
                'h' => H,
                'm' => M,
                'e' => E,
                _ => panic!(),
            };
            b.0[sq(n) as usize] = mk(ch.is_uppercase(), k);
        }
        b
    }
    fn texts(s: &BTreeSet<MAction>) -> BTreeSet<String> {
        s.iter().map(|a| a.text()).collect()
    }
    fn set(v: &[&str]) -> BTreeSet<String> {
        v.iter().map(|s| s.to_string()).collect()
    }

    #[test]
    fn numbering() {
        assert_eq!(sq("a8"), 0);
        assert_eq!(sq("h8"), 7);
        assert_eq!(sq("a1"), 56);
        assert_eq!(sq("h1"), 63);
        assert_eq!(sq("c6"), 18);
        assert_eq!(sq("f3"), 45);
        assert_eq!(neighbour(sq("a8"), 0), None);
        assert_eq!(neighbour(sq("a8"), 3), None);
        assert_eq!(neighbour(sq("h1"), 1), None);
        assert_eq!(neighbour(sq("h1"), 2), None);
        assert_eq!(neighbour(sq("e4"), 0), Some(sq("e5")));
        assert_eq!(neighbour(sq("e4"), 1), Some(sq("f4")));
        assert_eq!(neighbour(sq("e4"), 2), Some(sq("e3")));
        assert_eq!(neighbour(sq("e4"), 3), Some(sq("d4")));
    }

    // expectations typed into the repo's tests (independent data)
    #[test]
    fn readme_example() {
        let b = board(&[("f8", 'r'), ("b6", 'R'), ("e6", 'e')]);
        let m = Model::from_position(b, true, 2);
        assert_eq!(texts(&m.offered_norep()), set(&["b6n", "b6e", "b6w"]));
    }

    #[test]
    fn frozen_and_support() {
        // gold rabbit next to silver cat is frozen; with a friend adjacent it is not
        let b = board(&[("d4", 'R'), ("d5", 'c'), ("h8", 'r'), ("a1", 'E')]);
        assert!(b.is_frozen(sq("d4")));
        let b2 = board(&[("d4", 'R'), ("d5", 'c'), ("c4", 'R')]);
        assert!(!b2.is_frozen(sq("d4")));
        // equal strength does not freeze
        let b3 = board(&[("d4", 'C'), ("d5", 'c')]);
        assert!(!b3.is_frozen(sq("d4")));
    }

    #[test]
    fn push_and_pull() {
        // gold elephant d4, silver rabbit d5: can push r north/east/west, or step and pull
        let b = board(&[("d4", 'E'), ("d5", 'r'), ("a1", 'R'), ("h8", 'r')]);
        let mut m = Model::from_position(b, true, 2);
        let o = texts(&m.offered_norep());
        assert!(o.contains("d5n") && o.contains("d5e") && o.contains("d5w"));
        assert!(!o.contains("d5s"));
        assert!(!o.contains("p"));
        m.apply(MAction::Step { from: sq("d5"), dir: 0 }).unwrap();
        assert_eq!(texts(&m.offered_norep()), set(&["d4n"]));
        assert_eq!(m.status, Status::MustCompletePush { sq: sq("d5"), kind: R });
        m.apply(MAction::Step { from: sq("d4"), dir: 0 }).unwrap();
        assert_eq!(m.status, Status::None);
        assert!(texts(&m.offered_norep()).contains("p"));
        // the pushed rabbit on d6 cannot be pulled by the push-completing step
        // now elephant on d5, rabbit on d6: step E east then pull r to d5
        m.apply(MAction::Step { from: sq("d5"), dir: 1 }).unwrap();
        assert_eq!(m.status, Status::PossiblePull { sq: sq("d5"), kind: E });
        let o = texts(&m.offered_norep());
        assert!(o.contains("d6s"));
        m.apply(MAction::Step { from: sq("d6"), dir: 2 }).unwrap();
        // fourth step ended the turn
        assert_eq!(m.step, 0);
        assert!(!m.gold_to_move);
        assert_eq!(m.move_number, 2);
    }

    #[test]
    fn no_push_on_last_step() {
        let b = board(&[("d4", 'E'), ("d5", 'r'), ("a1", 'R'), ("h8", 'r')]);
        let mut m = Model::from_position(b, true, 2);
        m.apply(MAction::Step { from: sq("a1"), dir: 0 }).unwrap();
        m.apply(MAction::Step { from: sq("a2"), dir: 0 }).unwrap();
        m.apply(MAction::Step { from: sq("a3"), dir: 0 }).unwrap();
        let o = texts(&m.offered_norep());
        assert!(!o.contains("d5n"), "{:?}", o);
        assert!(o.contains("d4e"));
    }

    #[test]
    fn capture_rule() {
        // silver rabbit pushed onto c6 trap without support is captured; gold horse on c3 with support stays
        let b = board(&[("c5", 'E'), ("b6", 'r'), ("c3", 'H'), ("c2", 'R'), ("h8", 'r')]);
        let (nb, rem) = b.step(sq("b6"), 1).unwrap();
        assert_eq!(rem, vec![(sq("c6"), mk(false, R))]);
        assert_eq!(nb.at(sq("c6")), EMPTY);
        // supporter steps away -> horse captured
        let (nb2, rem2) = b.step(sq("c2"), 1).unwrap();
        assert_eq!(rem2, vec![(sq("c3"), mk(true, H))]);
        assert_eq!(nb2.at(sq("c3")), EMPTY);
    }

    #[test]
    fn ladder() {
        // both rabbits on goal: last mover wins
        let b = board(&[("a8", 'R'), ("a1", 'r')]);
        let m = Model::from_position(b, true, 2); // gold to move, silver moved last
        assert_eq!(m.result_at_turn_start(), Some((Winner::Silver, 1)));
        let m = Model::from_position(b, false, 2);
        assert_eq!(m.result_at_turn_start(), Some((Winner::Gold, 1)));
        // immobilised
        let b = board(&[("a1", 'R'), ("a2", 'r'), ("b1", 'c'), ("h8", 'r')]);
        let m = Model::from_position(b, true, 2);
        assert_eq!(m.result_at_turn_start(), Some((Winner::Silver, 5)));
    }

    #[test]
    fn setup_order() {
        assert_eq!(setup_square(true, 0), sq("a2"));
        assert_eq!(setup_square(true, 7), sq("h2"));
        assert_eq!(setup_square(true, 8), sq("a1"));
        assert_eq!(setup_square(true, 15), sq("h1"));
        assert_eq!(setup_square(false, 0), sq("a8"));
        assert_eq!(setup_square(false, 8), sq("a7"));
        assert_eq!(setup_square(false, 15), sq("h7"));
    }
}
