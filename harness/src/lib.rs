pub mod core;
pub mod model;
pub mod gen;
pub mod drive;
pub mod props;
pub mod runner;
pub mod registry;
pub mod special;
