//! C18 / C20: racing release of a long shared history (see the comment on `longdrop`).
//! Built in the dev profile on purpose: that is what `cargo test` users run, stack frames are
//! largest there and the window of the race is widest.
//! usage: longdrop <rounds> <len>
use arimaa_engine_step::GameState;
use std::sync::Arc;

/// Racing release of a long shared history: two threads drop the last two owners of one history list
/// at the same instant, many times. If the list's release is iterative only for the sole owner (e.g.
/// `Arc::try_unwrap` instead of `Arc::into_inner`), both can lose the race and the last reference is
/// then released by recursive drop glue, which overflows the default 2 MiB thread stack.
/// Prints "LONGDROP ok rounds=<n>" on success; a stack overflow kills the process.
fn longdrop(rounds: usize, len: usize) {
    use arimaa_engine_step::{List, Phase, PieceBoard, PlayPhase, Zobrist};
    let start: GameState = "2g\n +-----------------+\n8| r r r r r r r r |\n7| h d c e m c d h |\n6|     x     x     |\n5|                 |\n4|                 |\n3|     x     x     |\n2| H D C M E C D H |\n1| R R R R R R R R |\n +-----------------+\n   a b c d e f g h".parse().expect("start");
    let pbs = start.piece_board().clone();
    // a pool of distinct hashes (values are irrelevant for the release path)
    let mut pool: Vec<Zobrist> = vec![];
    for sq in 0..64u32 {
        for side in [true, false] {
            let pb = PieceBoard::new(if side { 1u64 << sq } else { 0 }, 0, 0, 0, 1u64 << sq, 0, 0);
            pool.push(Zobrist::from_piece_board(pb.piece_board(), side, 0));
        }
    }
    // Several independent pairs of workers, freshly spawned every round. Each worker expands the shared
    // state itself (so that its child shares the history), lets go of the shared state, waits for its
    // partner, is shifted against it by a lag that sweeps a 16 x 16 grid over the rounds (so that the
    // nanosecond window in which both lose the race for sole ownership is crossed systematically), and
    // releases its child.
    use std::sync::atomic::{AtomicUsize, Ordering};
    let pairs_n: usize = std::env::var("LONGDROP_PAIRS").ok().and_then(|s| s.parse().ok()).unwrap_or(6);
    let pool = Arc::new(pool);
    let pbs = Arc::new(pbs);
    let drivers: Vec<_> = (0..pairs_n)
        .map(|pair| {
            let pool = pool.clone();
            let pbs = pbs.clone();
            std::thread::spawn(move || {
                let my_rounds = rounds / pairs_n + 1;
                for round in 0..my_rounds {
                    let mut list = List::new();
                    for i in 0..len {
                        list = list.append(pool[(i + pair) % pool.len()]);
                    }
                    let h = Zobrist::from_piece_board(&pbs, true, 0);
                    // (re-assign, do not shadow: a shadowed binding would stay alive until the end of the
                    // round and keep the whole tail owned by this thread)
                    list = list.append(h);
                    let pb = PieceBoard::new(pbs.p1_pieces, pbs.elephants, pbs.camels, pbs.horses, pbs.dogs, pbs.cats, pbs.rabbits);
                    let root = Arc::new(GameState::new(true, 2, Phase::PlayPhase(PlayPhase::initial(h, list)), pb, h));
                    let acts = Arc::new(root.valid_actions());
                    let arrived = Arc::new(AtomicUsize::new(0));
                    let workers: Vec<_> = (0..2usize)
                        .map(|w| {
                            let root = root.clone();
                            let acts = acts.clone();
                            let arrived = arrived.clone();
                            std::thread::spawn(move || {
                                let child = root.take_action(&acts[(pair + round + w) % acts.len()]);
                                let _ = child.transposition_hash();
                                drop(root);
                                arrived.fetch_add(1, Ordering::SeqCst);
                                while arrived.load(Ordering::SeqCst) < 2 {
                                    std::hint::spin_loop();
                                }
                                let lag = if w == 0 { round % 16 } else { round / 16 % 16 };
                                for _ in 0..lag {
                                    std::hint::spin_loop();
                                }
                                drop(child);
                            })
                        })
                        .collect();
                    drop(root);
                    for w in workers {
                        let _ = w.join();
                    }
                }
            })
        })
        .collect();
    for d in drivers {
        let _ = d.join();
    }
    println!("LONGDROP ok rounds={} len={}", rounds, len);
}


fn main() {
    let args: Vec<String> = std::env::args().collect();
    longdrop(args[1].parse().unwrap(), args[2].parse().unwrap());
}
