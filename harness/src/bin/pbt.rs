use arimaa_verif::core::*;
use arimaa_verif::registry;
use arimaa_verif::runner::*;
use arimaa_verif::special;
use serde_json::{json, Value};
use std::process::exit;

fn usage() -> ! {
    eprintln!("usage: pbt check <id> [--tier quick|thorough] | pbt replay <file>");
    exit(2)
}

fn main() {
    install_hook();
    enable_logging();
    let args: Vec<String> = std::env::args().collect();
    if args.len() < 3 {
        usage();
    }
    match args[1].as_str() {
        "check" => {
            let id = args[2].clone();
            let mut tier = std::env::var("VERIF_TIER").unwrap_or_else(|_| "quick".into());
            let mut i = 3;
            while i < args.len() {
                if args[i] == "--tier" && i + 1 < args.len() {
                    tier = args[i + 1].clone();
                    i += 1;
                }
                i += 1;
            }
            let seed: u64 = std::env::var("VERIF_SEED").ok().and_then(|s| s.trim().parse::<i128>().ok()).map(|v| v as u64).unwrap_or(20261003);
            let cfg = RunCfg { id, thorough: tier == "thorough", seed };
            // watchdog: a hang (e.g. an endless loop in a changed engine) is inconclusive, never a violation
            let limit = std::time::Duration::from_secs(if cfg.thorough { 4 * 3600 } else { 20 * 60 });
            let wid = cfg.id.clone();
            std::thread::spawn(move || {
                std::thread::sleep(limit);
                eprintln!("INCONCLUSIVE property={}: watchdog after {} s", wid, limit.as_secs());
                // child processes (concurrency and long-game binaries, builds) must not outlive the check
                let _ = std::process::Command::new("pkill").arg("-9").arg("-P").arg(std::process::id().to_string()).status();
                std::process::exit(2);
            });
            // a panic of the harness itself is reported as inconclusive (2), never as 101 or as a violation
            match guard(|| check(&cfg)) {
                Ok(code) => exit(code),
                Err(p) => {
                    eprintln!("INCONCLUSIVE property={}: the harness itself panicked: {}", cfg.id, p);
                    exit(2)
                }
            }
        }
        "replay" => exit(replay(&args[2])),
        "fuzz-artifact" => exit(fuzz_artifact(&args[2], args.get(3).map(|s| s.as_str()).unwrap_or(""), args.get(4).map(|s| s.as_str()))),
        _ => usage(),
    }
}

fn report_violation(cfg: &RunCfg, v: Violation, stats: &Stats, t0: std::time::Instant) -> i32 {
    if v.fail.clause.starts_with("harness") {
        // a failure the harness attributes to itself is never a finding
        println!("INCONCLUSIVE property={}: the harness could not carry out a case: {}", cfg.id, v.fail.detail);
        let _ = (stats, t0);
        return 2;
    }
    let sig = violation_signature(&v.replay);
    if let Some((_, what)) = known_findings(&cfg.id).into_iter().find(|(s, _)| *s == sig) {
        // a listed finding: reported, not an alarm (DESIGN.md §3.7)
        println!("KNOWN-FINDING: property={} {} ({})", cfg.id, what, sig);
        let info = EvidenceInfo { rule: &special::rule(&cfg.id), assumptions: special::assumptions(&cfg.id), exhaustive: false, extra: json!({"known_finding": sig}) };
        write_evidence(cfg, stats, &info, t0.elapsed().as_secs_f64(), 0);
        return 0;
    }
    println!("signature={}", sig);
    let path = write_replay(&cfg.id, &v.replay);
    println!("{}: {}", v.fail.clause, v.fail.detail);
    println!("VIOLATION property={} replay={}", cfg.id, path.display());
    let info = EvidenceInfo { rule: &special::rule(&cfg.id), assumptions: special::assumptions(&cfg.id), exhaustive: false, extra: json!({"violation": v.replay}) };
    write_evidence(cfg, stats, &info, t0.elapsed().as_secs_f64(), 1);
    1
}

fn check(cfg: &RunCfg) -> i32 {
    let t0 = timer();
    let mut stats = Stats::default();
    let mut replay_trouble: Option<String> = None;
    // ---- replay tier: committed regression replays for this property
    let regress = verif_root().join("replays").join("regress");
    if let Ok(rd) = std::fs::read_dir(&regress) {
        let mut files: Vec<_> = rd.filter_map(|e| e.ok()).map(|e| e.path()).filter(|p| p.file_name().and_then(|n| n.to_str()).map(|n| n.starts_with(&format!("{}-", cfg.id)) && n.ends_with(".json")).unwrap_or(false)).collect();
        files.sort();
        for f in files {
            match replay_file(&f.display().to_string()) {
                Ok(None) => stats.bump("regression_replays_passed"),
                Ok(Some(fail)) => {
                    println!("{}: {}", fail.clause, fail.detail);
                    println!("VIOLATION property={} replay={}", cfg.id, f.display());
                    let info = EvidenceInfo { rule: &special::rule(&cfg.id), assumptions: special::assumptions(&cfg.id), exhaustive: false, extra: json!({"violation_replay": f.display().to_string()}) };
                    write_evidence(cfg, &stats, &info, t0.elapsed().as_secs_f64(), 1);
                    return 1;
                }
                Err(e) => {
                    // a real violation found by the generated search outranks this; only if nothing else is
                    // found does the check end inconclusive
                    replay_trouble = Some(format!("regression replay {} could not be run: {}", f.display(), e));
                }
            }
        }
    }
    let legs = registry::legs(&cfg.id);
    let mut inconclusive: Option<String> = replay_trouble;
    for (i, leg) in legs.iter().enumerate() {
        let mut ls = Stats::default();
        let out = run_leg(cfg, i, leg, &mut ls);
        // prefix per-leg counters
        let mut pref = Stats::default();
        pref.evaluations = ls.evaluations;
        pref.nontrivial = ls.nontrivial;
        pref.samples = ls.samples;
        for (k, v) in ls.counters {
            pref.counters.insert(format!("{}/{}", leg.name, k), v);
        }
        stats.merge(pref);
        match out {
            Outcome::Pass => {}
            Outcome::Violation(v) => return report_violation(cfg, v, &stats, t0),
            Outcome::Inconclusive(e) => inconclusive = Some(e),
        }
    }
    let mut exhaustive = false;
    let mut extra = json!({});
    match special::run(cfg, &mut stats, &mut exhaustive, &mut extra) {
        Outcome::Pass => {}
        Outcome::Violation(v) => return report_violation(cfg, v, &stats, t0),
        Outcome::Inconclusive(e) => inconclusive = Some(e),
    }
    if legs.is_empty() && !special::handles(&cfg.id) {
        eprintln!("unknown property {}", cfg.id);
        return 2;
    }
    if let Some(e) = inconclusive {
        eprintln!("INCONCLUSIVE property={}: {}", cfg.id, e);
        return 2;
    }
    // libFuzzer campaign summary of this run (thorough tier), produced by fuzz/campaign.py
    if let Ok(path) = std::env::var("VERIF_FUZZ_SUMMARY") {
        if let Ok(text) = std::fs::read_to_string(&path) {
            if let Ok(v) = serde_json::from_str::<Value>(&text) {
                let execs: u64 = v["campaigns"].as_array().map(|a| a.iter().map(|c| c["executions"].as_u64().unwrap_or(0)).sum()).unwrap_or(0);
                stats.add("libfuzzer/executions", execs);
                if let Some(o) = extra.as_object_mut() {
                    o.insert("libfuzzer".into(), v);
                } else {
                    extra = json!({"libfuzzer": v});
                }
            }
        }
    }
    let info = EvidenceInfo { rule: &special::rule(&cfg.id), assumptions: special::assumptions(&cfg.id), exhaustive, extra };
    write_evidence(cfg, &stats, &info, t0.elapsed().as_secs_f64(), 0);
    println!(
        "OK property={} tier={} seed={} evaluations={} distinct_nontrivial={} wall_s={:.1}",
        cfg.id,
        if cfg.thorough { "thorough" } else { "quick" },
        cfg.seed,
        stats.evaluations,
        stats.nontrivial.len(),
        t0.elapsed().as_secs_f64()
    );
    0
}

fn replay_file(path: &str) -> Result<Option<Fail>, String> {
    let text = std::fs::read_to_string(path).map_err(|e| e.to_string())?;
    let v: Value = serde_json::from_str(&text).map_err(|e| e.to_string())?;
    let id = v["property"].as_str().ok_or("no property")?.to_string();
    match v["kind"].as_str() {
        Some("game") => {
            let mk = registry::observer_for(&id).ok_or("no observer")?;
            replay_game(&v, mk)
        }
        _ => special::replay(&id, &v),
    }
}

fn replay(path: &str) -> i32 {
    match replay_file(path) {
        Ok(None) => {
            println!("replay passes: {}", path);
            0
        }
        Ok(Some(f)) => {
            let text = std::fs::read_to_string(path).unwrap_or_default();
            let v: Value = serde_json::from_str(&text).unwrap_or(Value::Null);
            println!("{}: {}", f.clause, f.detail);
            println!("VIOLATION property={} replay={}", v["property"].as_str().unwrap_or("?"), path);
            1
        }
        Err(e) => {
            eprintln!("INCONCLUSIVE: {}", e);
            2
        }
    }
}

#[allow(dead_code)]
fn _keep() {}

/// Re-checks a libFuzzer artifact in the ordinary (non-fuzz) build with the same decoder the target
/// uses; on failure writes a plain-data replay file and prints the VIOLATION line.
fn fuzz_artifact(target: &str, path: &str, only: Option<&str>) -> i32 {
    use arimaa_verif::fuzzdec;
    let data = match std::fs::read(path) {
        Ok(d) => d,
        Err(e) => {
            eprintln!("INCONCLUSIVE: cannot read {}: {}", path, e);
            return 2;
        }
    };
    let r = match target {
        "parse_board" => fuzzdec::board_target(&data),
        "parse_action" => fuzzdec::action_target(&data),
        "game" => fuzzdec::game_target(&data, only.filter(|s| !s.is_empty())),
        _ => {
            eprintln!("unknown target {}", target);
            return 2;
        }
    };
    match r {
        Ok(()) => {
            println!("artifact {} does not reproduce in the checked (non-fuzz) build", path);
            0
        }
        Err(e) => {
            let id = e.replay["property"].as_str().unwrap_or("?").to_string();
            let p = write_replay(&id, &e.replay);
            println!("{}: {}", e.fail.clause, e.fail.detail);
            println!("VIOLATION property={} replay={}", id, p.display());
            1
        }
    }
}
