//! C20 child process: plays a long capture-free game through offered actions on a thread with the
//! default stack size, then clones / queries / drops, acknowledging every stage with a line.
//! A stack overflow kills the process with a signal, which is what the parent looks for.
//!
//! usage: c20_child <seed> <turns> <policy 0|1|2> <order 0..>   (policy 2 = out and back, 3 = shuffle through rule-only actions)
use arimaa_engine_step::{Action, GameState, Piece};
use std::io::Write;

fn splitmix(s: &mut u64) -> u64 {
    *s = s.wrapping_add(0x9e3779b97f4a7c15);
    let mut z = *s;
    z = (z ^ (z >> 30)).wrapping_mul(0xbf58476d1ce4e5b9);
    z = (z ^ (z >> 27)).wrapping_mul(0x94d049bb133111eb);
    z ^ (z >> 31)
}

fn say(s: &str) {
    let out = std::io::stdout();
    let mut l = out.lock();
    let _ = writeln!(l, "{}", s);
    let _ = l.flush();
}

const START: &str = "2g
 +-----------------+
8| r r r r r r r r |
7| h d c e m c d h |
6|     x     x     |
5|                 |
4|                 |
3|     x     x     |
2| H D C M E C D H |
1| R R R R R R R R |
 +-----------------+
   a b c d e f g h";

fn quiet_steps(g: &GameState, offered: &[Action]) -> Vec<Action> {
    let pb = g.piece_board();
    let mine = pb.player_piece_mask(g.is_p1_turn_to_move());
    offered
        .iter()
        .filter(|a| match a {
            Action::Move(sq, _) => {
                let bit = sq.as_bit_board();
                bit & mine != 0 && pb.piece_type_at_square(sq) != Some(Piece::Rabbit) && g.trapped_animal_for_action(a).is_none()
            }
            _ => false,
        })
        .copied()
        .collect()
}

fn play(seed: u64, turns: usize, policy: u64) -> (GameState, usize) {
    let mut rng = seed;
    let mut g: GameState = START.parse().expect("start position");
    let mut turns_done = 0usize;
    let mut steps_this_turn = 0usize;
    let mut want_steps = 1usize;
    while turns_done < turns {
        if g.is_terminal().is_some() {
            break;
        }
        let offered = g.valid_actions();
        if offered.is_empty() {
            break;
        }
        let side = g.is_p1_turn_to_move();
        let a = if steps_this_turn >= want_steps && offered.contains(&Action::Pass) {
            Action::Pass
        } else {
            let q = quiet_steps(&g, &offered);
            let pool: Vec<Action> = if !q.is_empty() {
                q
            } else {
                let nc: Vec<Action> = offered.iter().filter(|a| **a != Action::Pass && g.trapped_animal_for_action(a).is_none()).copied().collect();
                if !nc.is_empty() {
                    nc
                } else {
                    offered.clone()
                }
            };
            pool[(splitmix(&mut rng) % pool.len() as u64) as usize]
        };
        g = g.take_action(&a);
        steps_this_turn += 1;
        if g.is_p1_turn_to_move() != side {
            turns_done += 1;
            steps_this_turn = 0;
            want_steps = if policy == 0 { 1 } else { 1 + (splitmix(&mut rng) % 3) as usize };
            if turns_done % 5000 == 0 {
                say(&format!("PROGRESS turns={} history={}", turns_done, g.unwrap_play_phase().hash_history().len()));
            }
        }
    }
    (g, turns_done)
}

/// Policy 2, "out and back": both sides shuffle their officers inside their own three home ranks with
/// one-step turns for half of the game, then take the turns back in reverse order (gold its last one,
/// silver its last one, ...). Nothing ever touches, so every step can be taken back; on the way back the
/// start-of-turn positions occur for the second time, and the distance between a position and its earlier
/// occurrence grows to the length of the whole game. Only offered actions are taken.
/// Returns the final state, the number of turns played and gold's very first step.
fn play_out_and_back(seed: u64, turns: usize) -> (GameState, usize, Option<Action>) {
    use arimaa_engine_step::{Direction, Square};
    let mut rng = seed;
    let mut g: GameState = START.parse().expect("start position");
    let in_zone = |gold: bool, sq: &Square, d: &Direction| -> bool {
        let i = sq.index() as i32;
        let to = match d {
            Direction::Up => i - 8,
            Direction::Down => i + 8,
            Direction::Left => i - 1,
            Direction::Right => i + 1,
        };
        let row = to / 8;
        if gold {
            row >= 5
        } else {
            row <= 2
        }
    };
    let inverse = |a: &Action| -> Option<Action> {
        if let Action::Move(sq, d) = a {
            let i = sq.index() as i32;
            let (to, back) = match d {
                Direction::Up => (i - 8, Direction::Down),
                Direction::Down => (i + 8, Direction::Up),
                Direction::Left => (i - 1, Direction::Right),
                Direction::Right => (i + 1, Direction::Left),
            };
            Some(Action::Move(Square::from_index(to as u8), back))
        } else {
            None
        }
    };
    let mut made: Vec<Action> = vec![];
    let mut seen: std::collections::HashSet<[u64; 6]> = std::collections::HashSet::new();
    for side in [true, false] {
        let pb = g.piece_board();
        let mine = pb.player_piece_mask(side);
        seen.insert([side as u64, pb.elephants & mine, pb.camels & mine, pb.horses & mine, pb.dogs & mine, pb.cats & mine]);
    }
    let mut turns_done = 0usize;
    let half = turns / 2 / 2 * 2; // an even number of turns out, so that gold is on move again
    while turns_done < half {
        if g.is_terminal().is_some() {
            break;
        }
        let offered = g.valid_actions();
        let side = g.is_p1_turn_to_move();
        let pool: Vec<Action> = quiet_steps(&g, &offered).into_iter().filter(|a| matches!(a, Action::Move(sq, d) if in_zone(side, sq, d))).collect();
        if pool.is_empty() {
            break;
        }
        // a step whose result has not been seen on the way out (so that every position of the way out
        // occurs once, and a second time on the way back)
        let start = (splitmix(&mut rng) % pool.len() as u64) as usize;
        let mut chosen = None;
        for i in 0..pool.len() {
            let a = pool[(start + i) % pool.len()];
            let n = g.take_action(&a);
            if !n.valid_actions().contains(&Action::Pass) {
                continue;
            }
            let after = n.take_action(&Action::Pass);
            // the mover's own arrangement must be new: then no pairing of a gold arrangement with a
            // silver arrangement can come about a third time, neither on the way out nor on the way back
            let pb = after.piece_board();
            let mine = pb.player_piece_mask(side);
            let key = [side as u64, pb.elephants & mine, pb.camels & mine, pb.horses & mine, pb.dogs & mine, pb.cats & mine];
            if seen.insert(key) {
                chosen = Some((a, after));
                break;
            }
        }
        let (a, after) = match chosen {
            Some(x) => x,
            None => break,
        };
        g = after;
        made.push(a);
        turns_done += 1;
        if turns_done % 5000 == 0 {
            say(&format!("PROGRESS out turns={} history={}", turns_done, g.unwrap_play_phase().hash_history().len()));
        }
    }
    if made.len() % 2 == 1 {
        // silver's turn is missing: take gold's last one out of the plan (it stays on the board)
        made.pop();
    }
    let first = made.first().copied();
    // back: pairs (gold's k-th, silver's k-th) from the last pair to the first, gold first
    let mut k = made.len();
    'back: while k >= 2 {
        for idx in [k - 2, k - 1] {
            let inv = match inverse(&made[idx]) {
                Some(x) => x,
                None => break 'back,
            };
            if g.is_terminal().is_some() || !g.valid_actions().contains(&inv) {
                say(&format!("NOTE way back ended at plan index {}: step {} not offered", idx, inv));
                break 'back;
            }
            let n = g.take_action(&inv);
            if !n.valid_actions().contains(&Action::Pass) {
                say(&format!("NOTE way back ended at plan index {}: pass not offered after {}", idx, inv));
                break 'back;
            }
            g = n.take_action(&Action::Pass);
            turns_done += 1;
            if turns_done % 5000 == 0 {
                say(&format!("PROGRESS back turns={} history={}", turns_done, g.unwrap_play_phase().hash_history().len()));
            }
        }
        k -= 2;
    }
    (g, turns_done, if k == 0 { first } else { None })
}

/// Policy 3, "shuffle": an officer of each side steps forth and back with one-step turns, taken from the rule-only
/// action list (`valid_actions_no_rep`, which the crate offers for building transposition tables and
/// which ignores repetitions), so the same four positions recur for the whole length of the game.
fn play_shuffle(turns: usize) -> (GameState, usize) {
    let mut g: GameState = START.parse().expect("start position");
    let cycle = ["e2n", "e7s", "e3s", "e6n"];
    let mut done = 0usize;
    while done < turns {
        let a: Action = cycle[done % 4].parse().expect("action");
        // membership in the rule-only list is a constant-time question; asking it every time would still
        // make the game quadratic through the lists' allocation, so it is asked on a sample
        if done % 97 == 0 && !g.valid_actions_no_rep().contains(&a) {
            break;
        }
        g = g.take_action(&a);
        if done % 97 == 0 && !g.valid_actions_no_rep().contains(&Action::Pass) {
            break;
        }
        g = g.take_action(&Action::Pass);
        done += 1;
        if done % 50000 == 0 {
            say(&format!("PROGRESS shuffle turns={} history={}", done, g.unwrap_play_phase().hash_history().len()));
        }
    }
    (g, done)
}

/// Policy 4, "long endgame, then immobilisation": Silver has a single rabbit that steps to and fro on
/// its rank, Gold shuffles five officers inside its home ranks without ever repeating an arrangement;
/// after the given number of turns the gold elephant walks up and freezes the rabbit, so that Silver, to
/// move, has no step at all - the one way a long capture-free game ends other than by a goal.
/// Only offered actions are taken.
const ENDGAME: &str = "2g
 +-----------------+
8|                 |
7|                 |
6|     x     x     |
5|               r |
4|                 |
3|     x     x   E |
2|   H D C M       |
1| R C             |
 +-----------------+
   a b c d e f g h";

fn play_endgame(seed: u64, turns: usize) -> (GameState, usize) {
    use arimaa_engine_step::{Direction, Square};
    let mut rng = seed;
    let mut g: GameState = ENDGAME.parse().expect("endgame position");
    let mut seen: std::collections::HashSet<[u64; 4]> = std::collections::HashSet::new();
    let key = |s: &GameState| {
        let pb = s.piece_board();
        [pb.horses & pb.p1_pieces, pb.dogs & pb.p1_pieces, pb.cats & pb.p1_pieces, pb.camels & pb.p1_pieces]
    };
    seen.insert(key(&g));
    let mut done = 0usize;
    let row_of = |sq: &Square, d: &Direction| -> i32 {
        let i = sq.index() as i32;
        (match d {
            Direction::Up => i - 8,
            Direction::Down => i + 8,
            Direction::Left => i - 1,
            Direction::Right => i + 1,
        }) / 8
    };
    while done + 2 < turns {
        if g.is_terminal().is_some() {
            return (g, done);
        }
        let offered = g.valid_actions();
        let gold = g.is_p1_turn_to_move();
        let mut next = None;
        if gold {
            // an officer other than the elephant, staying on ranks 1-3 and on files a-e, to a new arrangement
            let pb = g.piece_board();
            let movers = (pb.horses | pb.dogs | pb.cats | pb.camels) & pb.p1_pieces;
            let pool: Vec<Action> = offered.iter().copied().filter(|a| matches!(a, Action::Move(sq, d) if sq.as_bit_board() & movers != 0 && row_of(sq, d) >= 5 && {
                let i = sq.index() as i32;
                let to = match d { Direction::Up => i - 8, Direction::Down => i + 8, Direction::Left => i - 1, Direction::Right => i + 1 };
                to % 8 <= 4
            })).collect();
            if pool.is_empty() {
                break;
            }
            let start = (splitmix(&mut rng) % pool.len() as u64) as usize;
            for k in 0..pool.len() {
                let a = pool[(start + k) % pool.len()];
                if g.trapped_animal_for_action(&a).is_some() {
                    continue;
                }
                let n = g.take_action(&a);
                if n.valid_actions().contains(&Action::Pass) && seen.insert(key(&n)) {
                    next = Some(n.take_action(&Action::Pass));
                    break;
                }
            }
            if next.is_none() {
                // every neighbouring arrangement has been used: any step whose pass is still offered
                for k in 0..pool.len() {
                    let a = pool[(start + k) % pool.len()];
                    if g.trapped_animal_for_action(&a).is_some() {
                        continue;
                    }
                    let n = g.take_action(&a);
                    if n.valid_actions().contains(&Action::Pass) {
                        next = Some(n.take_action(&Action::Pass));
                        break;
                    }
                }
            }
        } else {
            // the rabbit steps sideways (never forward: it stays on its rank)
            for a in offered.iter() {
                if let Action::Move(_, d) = a {
                    if matches!(d, Direction::Left | Direction::Right) {
                        let n = g.take_action(a);
                        if n.valid_actions().contains(&Action::Pass) {
                            next = Some(n.take_action(&Action::Pass));
                            break;
                        }
                    }
                }
            }
        }
        match next {
            Some(n) => g = n,
            None => break,
        }
        done += 1;
        if done % 5000 == 0 {
            say(&format!("PROGRESS endgame turns={} history={}", done, g.unwrap_play_phase().hash_history().len()));
        }
    }
    // Gold to move (make it so), then the elephant goes next to the rabbit
    if !g.is_p1_turn_to_move() {
        return (g, done);
    }
    let rabbit = g.piece_board().rabbits & !g.piece_board().p1_pieces;
    let target_col = (rabbit.trailing_zeros() % 8) as i32; // the rabbit stands on rank 5 (row index 3)
    let mut path: Vec<&str> = vec!["h3n"];
    if target_col != 7 {
        path.push("h4w");
    }
    for t in path {
        let a: Action = t.parse().expect("action");
        if !g.valid_actions().contains(&a) {
            say(&format!("NOTE endgame: {} not offered", t));
            return (g, done);
        }
        g = g.take_action(&a);
    }
    if g.valid_actions().contains(&Action::Pass) {
        g = g.take_action(&Action::Pass);
        done += 1;
        let moves = g.valid_actions().len();
        say(&format!("STAGE endgame_side_to_move_has {} actions, result {:?}", moves, g.is_terminal()));
    }
    (g, done)
}

fn body(seed: u64, turns: usize, policy: u64, order: u64) {
    let (g, done) = if policy == 4 {
        play_endgame(seed, turns)
    } else if policy == 3 {
        let (g, done) = play_shuffle(turns);
        // in the middle of the next turn the repetition lookups meet a position that fills a quarter of the history
        let next: Action = ["e2n", "e7s", "e3s", "e6n"][done % 4].parse().expect("action");
        if g.valid_actions_no_rep().contains(&next) {
            let a = next;
            let n = g.take_action(&a);
            let acc = n.valid_actions().len() + n.can_pass(true) as usize + n.is_terminal().is_some() as usize + n.has_move(n.piece_board()).is_some() as usize;
            say(&format!("STAGE queries_in_the_turn_after_the_shuffle {}", acc));
        }
        (g, done)
    } else if policy == 2 {
        let (g, done, first) = play_out_and_back(seed, turns);
        // the whole way back was possible: gold makes its very first step again, whose result (with a
        // pass) occurred once, as far back as the game is long
        if let Some(a) = first {
            if g.valid_actions().contains(&a) {
                let n = g.take_action(&a);
                let acc = n.valid_actions().len() + n.valid_actions_no_rep().len() + n.can_pass(true) as usize + n.can_pass(false) as usize + n.is_terminal().is_some() as usize + n.has_move(n.piece_board()).is_some() as usize;
                say(&format!("STAGE first_step_made_again_after_the_way_back {}", acc));
            }
        }
        (g, done)
    } else {
        play(seed, turns, policy)
    };
    let hist = g.as_play_phase().map(|p| p.hash_history().len()).unwrap_or(0);
    say(&format!("PLAYED turns={} history={}", done, hist));
    let clone = g.clone();
    say("STAGE clone");
    let n = g.valid_actions().len() + g.valid_actions_no_rep().len();
    say(&format!("STAGE valid_actions {}", n));
    let t = g.is_terminal();
    say(&format!("STAGE is_terminal {:?}", t));
    let c = g.can_pass(true) as u8 + g.can_pass(false) as u8;
    say(&format!("STAGE can_pass {}", c));
    let s = g.to_string();
    say(&format!("STAGE to_string {}", s.len()));
    let h = g.transposition_hash();
    say(&format!("STAGE transposition_hash {:x}", h));
    let next = g.valid_actions().first().map(|a| g.take_action(a));
    say("STAGE take_action");
    // every public query on the states in the middle of the next turn (steps 1, 2, 3), including the
    // boards of the earlier steps of that turn
    if let Some(n1) = next.as_ref() {
        let mut cur = n1.clone();
        for _ in 0..3 {
            if !cur.is_play_phase() || cur.current_step() == 0 {
                break;
            }
            let k = cur.current_step();
            let mut acc = 0u64;
            for i in 0..=k {
                acc ^= cur.piece_board_for_step(i).all_pieces;
            }
            let pp = cur.unwrap_play_phase();
            acc ^= pp.previous_piece_boards().len() as u64 ^ pp.hash_history().len() as u64 ^ pp.hash_history().iter().count() as u64;
            let _ = pp.push_pull_state();
            let va = cur.valid_actions();
            acc ^= va.len() as u64 ^ cur.valid_actions_no_rep().len() as u64;
            acc ^= cur.is_terminal().is_some() as u64 ^ cur.has_move(cur.piece_board()).is_some() as u64;
            acc ^= cur.can_pass(true) as u64 ^ cur.can_pass(false) as u64 ^ cur.transposition_hash();
            for a in va.iter() {
                acc ^= cur.trapped_animal_for_action(a).is_some() as u64;
            }
            acc ^= cur.to_string().len() as u64;
            say(&format!("STAGE mid_turn_queries step={} {:x}", k, acc));
            let step = va.iter().find(|a| matches!(a, Action::Move(..)) && cur.trapped_animal_for_action(a).is_none());
            match step {
                Some(a) => cur = cur.take_action(a),
                None => break,
            }
        }
    }
    let eq = clone == g;
    say(&format!("STAGE eq {}", eq));
    twin_queries(&g);
    release_ways(&g);
    if order % 2 == 0 {
        drop(clone);
        say("STAGE drop_clone");
        drop(next);
        say("STAGE drop_next");
        // the original is now the only owner of the long history: discard it by a capture if one
        // can be reached, otherwise by drop
        if order % 4 == 0 {
            let g2 = play_until_capture(g, seed ^ 0x55);
            say("STAGE capture_path");
            drop(g2);
        } else {
            // the last owner is released while its thread unwinds from a panic that the caller contains
            // (join / catch_unwind): the process must survive that, too
            std::panic::set_hook(Box::new(|_| {}));
            let h = std::thread::spawn(move || {
                let _owned = g;
                panic!("contained panic while owning a long game");
            });
            let r = h.join();
            say(&format!("STAGE released_while_unwinding contained={}", r.is_err()));
        }
        say("STAGE drop_original");
    } else {
        drop(g);
        say("STAGE drop_original");
        drop(next);
        say("STAGE drop_next");
        drop(clone);
        say("STAGE drop_clone");
    }
    say(&format!("DONE history={}", hist));
}

/// The final state once more with history nodes of its own (same content; built with the public
/// constructors), so that it is the sole owner of a long history.
fn deep_copy(g: &GameState) -> Option<GameState> {
    use arimaa_engine_step::{List, Phase, PieceBoard, PlayPhase, Zobrist};
    let pp = g.as_play_phase()?;
    if pp.step() != 0 {
        return None;
    }
    let mut items: Vec<Zobrist> = pp.hash_history().iter().cloned().collect();
    items.reverse();
    let mut list = List::new();
    for z in items {
        list = list.append(z);
    }
    let pbs = g.piece_board();
    let side = g.is_p1_turn_to_move();
    let h = Zobrist::from_piece_board(pbs, side, 0);
    let pb = PieceBoard::new(pbs.p1_pieces, pbs.elephants, pbs.camels, pbs.horses, pbs.dogs, pbs.cats, pbs.rabbits);
    let phase = Phase::PlayPhase(PlayPhase::new(h, list, vec![], pp.push_pull_state(), pp.piece_trapped_this_turn()));
    Some(GameState::new(side, g.move_number(), phase, pb, h))
}

/// The same questions asked alternately of the game and of an independent copy of it (equal content,
/// history nodes of its own - what replaying a game record or restoring a stored game gives): anything
/// that compares two long histories with each other does so here.
fn twin_queries(g: &GameState) {
    let twin = match deep_copy(g) {
        Some(t) => t,
        None => {
            say("STAGE twin_queries skipped");
            return;
        }
    };
    let mut acc = 0usize;
    let eq = twin == *g;
    acc += eq as usize;
    let first = g.valid_actions().into_iter().find(|a| matches!(a, Action::Move(..)));
    for round in 0..2 {
        for s in [g, &twin] {
            acc += s.valid_actions().len() + s.can_pass(true) as usize + s.is_terminal().is_some() as usize;
        }
        if let Some(a) = first.as_ref() {
            let (n1, n2) = (g.take_action(a), twin.take_action(a));
            for s in [&n1, &n2, &n1, &n2] {
                acc += s.valid_actions().len() + s.can_pass(true) as usize + s.can_pass(false) as usize + s.is_terminal().is_some() as usize + s.has_move(s.piece_board()).is_some() as usize;
            }
            acc += (n1 == n2) as usize;
        }
        say(&format!("STAGE twin_queries round={} {}", round, acc));
    }
}

/// Every way in which client code lets go of a state that is the sole owner of a long history: not only
/// `drop`, but also overwriting it in place (`clone_from`, assignment, `mem::replace`, `Option::take`),
/// letting go of its parts (play phase, history list) and of containers that hold it.
fn release_ways(g: &GameState) {
    use arimaa_engine_step::List;
    let short: GameState = START.parse().expect("start position");
    let mk = || deep_copy(g);
    if mk().is_none() {
        say("STAGE release_ways skipped");
        return;
    }
    {
        let mut a = mk().unwrap();
        a.clone_from(&short);
        say("STAGE release overwritten_by_clone_from_short_game");
        let _ = a.valid_actions();
    }
    {
        let mut a = mk().unwrap();
        let b = mk().unwrap();
        a.clone_from(&b);
        say("STAGE release overwritten_by_clone_from_long_game");
        drop(b);
        drop(a);
        say("STAGE release both_dropped");
    }
    {
        let mut a = mk().unwrap();
        a.clone_from(g);
        say("STAGE release overwritten_by_clone_from_the_game_itself");
    }
    {
        let mut a = mk().unwrap();
        let _ = a.valid_actions();
        a = short.clone();
        say("STAGE release overwritten_by_assignment");
        let _ = a.valid_actions();
    }
    {
        let mut a = mk().unwrap();
        let old = std::mem::replace(&mut a, short.clone());
        drop(old);
        say("STAGE release mem_replace");
    }
    {
        let a = mk().unwrap();
        let mut phase = a.unwrap_play_phase().clone();
        drop(a);
        phase.clone_from(short.unwrap_play_phase());
        say("STAGE release play_phase_overwritten_by_clone_from");
    }
    {
        let a = mk().unwrap();
        let phase = a.unwrap_play_phase().clone();
        drop(a);
        drop(phase);
        say("STAGE release play_phase_dropped_last");
    }
    {
        let a = mk().unwrap();
        let mut list = a.unwrap_play_phase().hash_history().clone();
        drop(a);
        list.clone_from(&List::new());
        say("STAGE release history_list_overwritten_by_clone_from");
    }
    {
        let a = mk().unwrap();
        let mut list = a.unwrap_play_phase().hash_history().clone();
        drop(a);
        let n = list.len();
        list = list.append(*short.unwrap_play_phase().hash_history().head().expect("head"));
        say(&format!("STAGE release history_list_extended {}", n));
        drop(list);
        say("STAGE release history_list_dropped_last");
    }
    {
        let mut v = vec![mk().unwrap(), mk().unwrap()];
        v.truncate(1);
        v.clear();
        let mut o = mk();
        let _ = o.take();
        let b: Box<dyn std::any::Any> = Box::new(mk().unwrap());
        drop(b);
        let arc = std::sync::Arc::new(mk().unwrap());
        let arc2 = arc.clone();
        drop(arc);
        drop(arc2);
        say("STAGE release containers");
    }
}

/// Plays on (captures welcome) so that a capture discards the history while this state is its only owner.
fn play_until_capture(mut g: GameState, seed: u64) -> GameState {
    let mut rng = seed;
    for _ in 0..3000 {
        if g.is_terminal().is_some() {
            break;
        }
        let offered = g.valid_actions();
        if offered.is_empty() {
            break;
        }
        let caps: Vec<Action> = offered.iter().filter(|a| g.trapped_animal_for_action(a).is_some()).copied().collect();
        let before = g.unwrap_play_phase().hash_history().len();
        let a = if !caps.is_empty() { caps[0] } else { offered[(splitmix(&mut rng) % offered.len() as u64) as usize] };
        g = g.take_action(&a);
        let after = g.unwrap_play_phase().hash_history().len();
        if after + 1 < before {
            say(&format!("STAGE history_discarded_by_capture {} -> {}", before, after));
            break;
        }
    }
    g
}

fn main() {
    let a: Vec<String> = std::env::args().collect();
    let seed: u64 = a[1].parse().unwrap();
    let turns: usize = a[2].parse().unwrap();
    let policy: u64 = a[3].parse().unwrap();
    let order: u64 = a[4].parse().unwrap();
    // a client with logging switched on (every log statement's arguments are formatted)
    arimaa_verif::core::enable_logging();
    // default-size thread stack: the builder is not given a size and RUST_MIN_STACK is removed by the parent
    let h = std::thread::spawn(move || body(seed, turns, policy, order));
    match h.join() {
        Ok(()) => std::process::exit(0),
        Err(_) => std::process::exit(3),
    }
}
