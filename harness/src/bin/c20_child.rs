fn main(){}
