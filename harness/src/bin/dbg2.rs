use arimaa_verif::core::*;
use arimaa_verif::drive::*;
use arimaa_verif::gen::*;
use arimaa_verif::model::Model;
use proptest::strategy::{Strategy, ValueTree};
use proptest::test_runner::TestRunner;
use arimaa_verif::runner::proptest_config;
fn main() {
    let mut runner = TestRunner::new(proptest_config(1, 42));
    let mut diff = 0; let mut n = 0; let mut notwin = 0; let mut parsefail = 0;
    for _ in 0..2000 {
        let p = pos(PosMode::GameStart).new_tree(&mut runner).unwrap().current();
        let eng = match engine_from_position(&p.board, p.gold_to_move, p.move_number) { Ok(e) => e, Err(_) => continue };
        let mo = Model::from_position(p.board, p.gold_to_move, p.move_number);
        match type_permuted_twin(&mo.board) { None => { notwin += 1; continue; } Some(t) => { if engine_from_position(&t, mo.gold_to_move, 7).is_err() { parsefail += 1; } } }
        let before = eng.valid_actions_no_rep();
        interfere_with(&eng, &mo, 0);
        let after = eng.valid_actions_no_rep();
        n += 1;
        if before != after { diff += 1; }
    }
    println!("n={} diff={} notwin={} parsefail={}", n, diff, notwin, parsefail);
}
