use arimaa_verif::core::*;
use arimaa_verif::drive::*;
use arimaa_verif::gen::*;
use proptest::strategy::{Strategy, ValueTree};
use proptest::test_runner::TestRunner;
use arimaa_verif::runner::proptest_config;

struct Nop;
impl Obs for Nop {}

fn main() {
    let args: Vec<String> = std::env::args().collect();
    let n: usize = args.get(1).and_then(|s| s.parse().ok()).unwrap_or(10);
    let profile = arimaa_verif::runner::profile_from(args.get(2).map(|s| s.as_str()).unwrap_or("normal"));
    let small: u32 = args.get(3).and_then(|s| s.parse().ok()).unwrap_or(3);
    let mut runner = TestRunner::new(proptest_config(1, 42));
    let params = GameParams { max_ops: 200, w_setup: 0, w_pos: 6, w_small: small, w_frozen: 0, hanging: false, w_motif: 0, w_open: 0 };
    let mut by = std::collections::BTreeMap::new();
    for i in 0..n {
        let case = game(params).new_tree(&mut runner).unwrap().current();
        let mut st = Stats::default();
        let r = run_case(&case, &WalkOpts { profile, expand: None, follow_norep: false, inject: arimaa_verif::drive::Inject::No, interfere: false, play_on: false }, &mut Nop, &mut st);
        if let Ok((end, tr)) = r {
            *by.entry(end.ended_by).or_insert(0) += 1;
            if i < 12 {
                println!("{} ops={} steps={} {}", end.ended_by, case.ops.len(), end.steps, serde_json::to_string(&start_json(&case.start)["pieces"]).unwrap());
                println!("   {}", actions_text(&tr.actions));
            }
        }
    }
    println!("{:?}", by);
}
