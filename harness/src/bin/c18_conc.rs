//! C18, generated half: concurrent vs sequential expansion of shared states.
//! This binary (and only this one) requires the engine's types to be Send + Sync; it is built and
//! run only by the C18 check, after the probe crate has shown that they are.
//!
//! usage: c18_conc run <seed> <cases_per_shard> <shards>   -> JSON summary on stdout
//!        c18_conc replay <file>                           -> exit 1 + message if it fails

use arimaa_engine_step::{Action, GameState};
use arimaa_verif::core::*;
use arimaa_verif::drive::{self, Obs, Profile, WalkOpts};
use arimaa_verif::gen::{self, Case, GameParams};
use arimaa_verif::runner::{proptest_config, shard_seed};
use proptest::prelude::*;
use proptest::test_runner::{TestCaseError, TestError, TestRunner};
use serde_json::{json, Value};
use std::cell::RefCell;
use std::sync::mpsc;
use std::sync::{Arc, Barrier};

#[derive(Clone, Debug)]
enum Op {
    /// expand the current state to the given depth (1..=2), recording everything
    Expand(u8),
    /// clone the current state n times, query the clones, drop them in the given order
    CloneDrop(u8, bool),
    /// walk down a selector path from the current state; the end of the path becomes current
    Walk(Vec<u16>),
    /// query every public getter of the current state
    Query,
    /// go back to the shared root
    Root,
}

#[derive(Clone, Debug)]
struct Prog {
    phase1: Vec<Op>,
    /// how many children of the current state are handed to the next thread
    hand: u8,
    phase2: Vec<Op>,
}

#[derive(Clone, Debug)]
struct ConcCase {
    game: Case,
    profile: Profile,
    progs: Vec<Prog>,
}

// ---------------------------------------------------------------------------------------------
// Deadlock watch. Every concurrent execution is a group of worker threads. A worker that is blocked for
// good sits in interruptible sleep and uses no CPU time; a worker that is merely starved of CPU is
// runnable. If every unfinished worker of a complete group has been asleep without using any CPU time
// for 25 seconds, no worker can wake another one up any more (the harness's own barriers and channels
// cannot produce that: every worker sends before it receives) - the engine has blocked them. That is
// reported as a violation with the case; mere slowness never is.
// ---------------------------------------------------------------------------------------------
mod watch {
    use std::sync::Mutex;
    pub struct Group {
        pub id: u64,
        pub expected: usize,
        pub case: String,
        pub what: &'static str,
        pub members: Vec<(i64, bool)>,
    }
    pub static GROUPS: Mutex<Vec<Group>> = Mutex::new(Vec::new());
    static NEXT: std::sync::atomic::AtomicU64 = std::sync::atomic::AtomicU64::new(1);
    thread_local! {
        pub static CURRENT_CASE: std::cell::RefCell<String> = const { std::cell::RefCell::new(String::new()) };
    }
    pub fn new_group(expected: usize, what: &'static str) -> u64 {
        let id = NEXT.fetch_add(1, std::sync::atomic::Ordering::SeqCst);
        let case = CURRENT_CASE.with(|c| c.borrow().clone());
        GROUPS.lock().unwrap().push(Group { id, expected, case, what, members: vec![] });
        id
    }
    pub fn close(id: u64) {
        GROUPS.lock().unwrap().retain(|g| g.id != id);
    }
    fn my_tid() -> i64 {
        std::fs::read_link("/proc/thread-self").ok().and_then(|p| p.file_name().and_then(|f| f.to_str().and_then(|s| s.parse().ok()))).unwrap_or(-1)
    }
    pub struct Member(u64, i64);
    pub fn enter(id: u64) -> Member {
        let tid = my_tid();
        if let Some(g) = GROUPS.lock().unwrap().iter_mut().find(|g| g.id == id) {
            g.members.push((tid, false));
        }
        Member(id, tid)
    }
    impl Drop for Member {
        fn drop(&mut self) {
            if let Ok(mut gs) = GROUPS.lock() {
                if let Some(g) = gs.iter_mut().find(|g| g.id == self.0) {
                    for m in g.members.iter_mut() {
                        if m.0 == self.1 {
                            m.1 = true;
                        }
                    }
                }
            }
        }
    }
    /// (state letter, utime + stime) of a thread of this process
    fn stat(tid: i64) -> Option<(char, u64)> {
        let t = std::fs::read_to_string(format!("/proc/self/task/{}/stat", tid)).ok()?;
        let rest = &t[t.rfind(')')? + 2..];
        let f: Vec<&str> = rest.split(' ').collect();
        Some((f.first()?.chars().next()?, f.get(11)?.parse::<u64>().ok()? + f.get(12)?.parse::<u64>().ok()?))
    }
    pub fn start(exit_code: i32) {
        std::thread::spawn(move || {
            let mut seen: std::collections::HashMap<i64, (u64, u32)> = std::collections::HashMap::new();
            loop {
                std::thread::sleep(std::time::Duration::from_secs(1));
                let mut verdict: Option<(String, &'static str, usize, usize)> = None;
                {
                    let gs = GROUPS.lock().unwrap();
                    for g in gs.iter() {
                        if g.members.len() < g.expected {
                            continue;
                        }
                        let open: Vec<i64> = g.members.iter().filter(|m| !m.1).map(|m| m.0).collect();
                        if open.is_empty() || open.iter().any(|t| *t < 0) {
                            continue;
                        }
                        let mut all_stuck = true;
                        for &t in open.iter() {
                            match stat(t) {
                                Some(('S', cpu)) => {
                                    let e = seen.entry(t).or_insert((cpu, 0));
                                    if e.0 == cpu {
                                        e.1 += 1;
                                    } else {
                                        *e = (cpu, 0);
                                    }
                                    if e.1 < 25 {
                                        all_stuck = false;
                                    }
                                }
                                Some((_, cpu)) => {
                                    seen.insert(t, (cpu, 0));
                                    all_stuck = false;
                                }
                                None => all_stuck = false,
                            }
                        }
                        if all_stuck {
                            verdict = Some((g.case.clone(), g.what, open.len(), g.expected));
                            break;
                        }
                    }
                }
                if let Some((case, what, open, expected)) = verdict {
                    println!("DEADLOCK {}", serde_json::json!({"what": what, "blocked": open, "threads": expected, "case": serde_json::from_str::<serde_json::Value>(&case).unwrap_or(serde_json::Value::Null)}));
                    use std::io::Write;
                    let _ = std::io::stdout().flush();
                    std::process::exit(exit_code);
                }
            }
        });
    }
}

fn op() -> impl Strategy<Value = Op> {
    prop_oneof![
        3 => Just(Op::Expand(1)),
        5 => Just(Op::Expand(2)),
        2 => (1u8..=6, any::<bool>()).prop_map(|(n, r)| Op::CloneDrop(n, r)),
        3 => prop::collection::vec(any::<u16>(), 1..8).prop_map(Op::Walk),
        2 => Just(Op::Query),
        1 => Just(Op::Root),
    ]
}

fn conc_case() -> impl Strategy<Value = ConcCase> {
    // roots with a history behind them: recurrence-heavy small games (so that repetition lookups have
    // something to find) as well as ordinary ones
    let params = GameParams { max_ops: 160, w_setup: 1, w_pos: 3, w_small: 6, w_frozen: 1, hanging: false, w_motif: 0, w_open: 0 };
    let prog = (prop::collection::vec(op(), 1..6), 0u8..4, prop::collection::vec(op(), 0..4)).prop_map(|(phase1, hand, phase2)| Prog { phase1, hand, phase2 });
    (gen::game(params), prop_oneof![1 => Just(Profile::Normal), 3 => Just(Profile::Cycle), 1 => Just(Profile::Fight)], prop::collection::vec(prog, 2..=8))
        .prop_map(|(game, profile, progs)| ConcCase { game, profile, progs })
}

struct Nop;
impl Obs for Nop {}

/// The actions of the generated game; the root is the state they reach (so it has a history).
fn root_actions(c: &ConcCase) -> Option<Vec<Action>> {
    let mut st = Stats::default();
    let (_end, trace) = drive::run_case(&c.game, &WalkOpts { profile: c.profile, expand: None, follow_norep: false, inject: arimaa_verif::drive::Inject::No, interfere: false, play_on: false }, &mut Nop, &mut st).ok()?;
    // a finished game has nothing to expand: step back to the last state without a result
    let mut actions = trace.actions;
    loop {
        let g = fresh_root(&c.game.start, &actions)?;
        if g.is_terminal().is_none() || actions.is_empty() {
            break;
        }
        actions.pop();
    }
    Some(actions)
}

/// A FRESH instance of the root (every execution gets its own, so that anything a state computes
/// lazily on first use is computed again, concurrently, in the concurrent run).
fn fresh_root(start: &gen::Start, actions: &[Action]) -> Option<GameState> {
    let (mut eng, _) = drive::start_states(start).ok()?;
    for a in actions.iter() {
        eng = eng.take_action(a);
    }
    Some(eng)
}

#[derive(Default)]
struct Transcript {
    h: u64,
    items: u64,
}
impl Transcript {
    fn put(&mut self, v: u64) {
        self.h = mix64(self.h ^ v);
        self.items += 1;
    }
    fn put_str(&mut self, s: &str) {
        self.put(fp_str(s));
    }
}

fn observe(g: &GameState, t: &mut Transcript) -> Vec<Action> {
    let va = g.valid_actions();
    t.put_str(&actions_text(&va));
    t.put_str(&actions_text(&g.valid_actions_no_rep()));
    t.put(g.transposition_hash());
    t.put(match g.is_terminal() {
        None => 0,
        Some(arimaa_engine_step::Terminal::GoldWin) => 1,
        Some(arimaa_engine_step::Terminal::SilverWin) => 2,
    });
    t.put(g.can_pass(true) as u64 * 2 + g.can_pass(false) as u64);
    t.put(g.is_p1_turn_to_move() as u64);
    t.put(g.move_number() as u64);
    let pb = g.piece_board();
    t.put(pb.all_pieces ^ pb.p1_pieces.rotate_left(7) ^ pb.rabbits.rotate_left(13));
    if let Some(pp) = g.as_play_phase() {
        t.put(pp.hash_history().len() as u64);
        for z in pp.hash_history().iter().take(8) {
            t.put(z.board_state_hash());
        }
        t.put(pp.step() as u64);
    }
    va
}

/// The same queries as `observe`, asked in a rotated order (each worker of the same-object scenario
/// starts at a different query), recorded in the canonical order.
fn ask(g: &GameState, q: usize) -> u64 {
    match q % 8 {
        7 => {
            // expansion: every offered action is applied (also the rule-only ones) and the children are hashed
            let mut acc = 0u64;
            for a in g.valid_actions_no_rep().iter() {
                let c = g.take_action(a);
                acc = mix64(acc ^ c.transposition_hash());
                // what the successor offers (a successor made while its parent was being asked must
                // behave like any other)
                acc = mix64(acc ^ fp_str(&actions_text(&c.valid_actions())));
                acc = mix64(acc ^ (c.can_pass(true) as u64 * 2 + c.is_terminal().is_some() as u64));
            }
            let cl = g.clone();
            acc = mix64(acc ^ fp_str(&actions_text(&cl.valid_actions())));
            acc
        }
        0 => fp_str(&actions_text(&g.valid_actions())),
        1 => fp_str(&actions_text(&g.valid_actions_no_rep())),
        2 => g.transposition_hash(),
        3 => match g.is_terminal() {
            None => 0,
            Some(arimaa_engine_step::Terminal::GoldWin) => 1,
            Some(arimaa_engine_step::Terminal::SilverWin) => 2,
        },
        4 => g.can_pass(true) as u64 * 2 + g.can_pass(false) as u64,
        5 => g.has_move(g.piece_board()).is_some() as u64,
        _ => {
            let pb = g.piece_board();
            pb.all_pieces ^ pb.p1_pieces.rotate_left(7) ^ g.move_number() as u64
        }
    }
}

fn observe_rotated(g: &GameState, t: &mut Transcript, rot: usize) {
    let mut slots = [0u64; 8];
    for k in 0..8 {
        let q = (k + rot) % 8;
        slots[q] = ask(g, q);
    }
    for v in slots {
        t.put(v);
    }
}

/// Same-object scenario: one state object (not clones of it) is asked by several threads at the same
/// time, every thread starting at a different query - readers of one transposition-table entry.
fn same_object_run(state: &Arc<GameState>, threads: usize, reps: usize, first_query: usize, concurrent: bool) -> Vec<(u64, u64)> {
    // the one thing the object is asked before the burst (a table entry has usually been looked at once);
    // 8 = nothing
    if first_query < 8 {
        let _ = ask(state, first_query);
    }
    let work = move |g: &GameState, rot: usize| {
        let mut t = Transcript::default();
        for r in 0..reps {
            observe_rotated(g, &mut t, rot + r * 3);
        }
        (t.h, t.items)
    };
    if !concurrent {
        return (0..threads).map(|i| work(state, [0usize, 7, 3, 1, 7, 5][i % 6])).collect();
    }
    let barrier = Arc::new(Barrier::new(threads));
    let gid = watch::new_group(threads, "same-object scenario");
    let hs: Vec<_> = (0..threads)
        .map(|i| {
            let barrier = barrier.clone();
            let g = state.clone();
            std::thread::spawn(move || {
                let _member = watch::enter(gid);
                barrier.wait();
                work(&g, [0usize, 7, 3, 1, 7, 5][i % 6])
            })
        })
        .collect();
    let out = hs.into_iter().map(|h| h.join().unwrap_or((0xdead, 0))).collect();
    watch::close(gid);
    out
}

/// Fresh-object race: many never-queried copies of one state (copies made before the first query are as
/// untouched as the original). For each copy in turn, one thread asks it for its action list - its very
/// first query - while another thread clones it and expands it at the same instant, with a small,
/// varying lag; what the clone and the successor offer is compared with what they offer when nothing
/// runs alongside. Anything a state fills in lazily on first use is caught mid-way by the copy here.
/// Returns the index of the first copy whose clone or successor answered differently.
fn fresh_object_race(base: &GameState, step: Option<Action>, n: usize) -> Option<(usize, &'static str)> {
    use std::sync::atomic::{AtomicUsize, Ordering};
    let want_state = fp_str(&actions_text(&base.clone().valid_actions()));
    let want_clone = want_state;
    let want_child = step.map(|a| {
        let c = base.clone().take_action(&a);
        mix64(fp_str(&actions_text(&c.valid_actions())) ^ c.can_pass(true) as u64)
    });
    // (the queries above went to clones of `base`, not to `base` itself, and clones do not write back)
    let objs: Arc<Vec<GameState>> = Arc::new((0..n).map(|_| base.clone()).collect());
    // go = number of copies released so far, done = number of copies the asker is through with
    let go = Arc::new(AtomicUsize::new(0));
    let done = Arc::new(AtomicUsize::new(0));
    let gid = watch::new_group(2, "fresh-object race");
    let (o1, g1, d1) = (objs.clone(), go.clone(), done.clone());
    let asker = std::thread::spawn(move || {
        let _member = watch::enter(gid);
        let mut bad = None;
        for i in 0..o1.len() {
            let mut spins = 0u32;
            while g1.load(Ordering::Acquire) < i + 1 {
                std::hint::spin_loop();
                spins += 1;
                if spins % 256 == 0 {
                    std::thread::yield_now();
                }
            }
            let got = fp_str(&actions_text(&o1[i].valid_actions()));
            if got != want_state && bad.is_none() {
                bad = Some((i, "the state itself"));
            }
            d1.store(i + 1, Ordering::Release);
        }
        bad
    });
    let (o2, g2, d2) = (objs.clone(), go.clone(), done.clone());
    let copier = std::thread::spawn(move || {
        let _member = watch::enter(gid);
        let mut bad = None;
        for i in 0..o2.len() {
            // in step with the asker: copy number i is released when the asker is through with i - 1
            let mut spins = 0u32;
            while d2.load(Ordering::Acquire) < i {
                std::hint::spin_loop();
                spins += 1;
                if spins % 256 == 0 {
                    std::thread::yield_now();
                }
            }
            g2.store(i + 1, Ordering::Release);
            // copies in a tight row for as long as the asker is inside its first query (at most 48), so
            // that some of them fall into the middle of it
            let mut cls: Vec<GameState> = Vec::with_capacity(48);
            let mut child = None;
            while cls.len() < 48 {
                cls.push(o2[i].clone());
                if cls.len() == 8 {
                    child = step.map(|a| o2[i].take_action(&a));
                }
                if d2.load(Ordering::Acquire) > i && cls.len() >= 8 {
                    break;
                }
            }
            for cl in cls.iter() {
                if fp_str(&actions_text(&cl.valid_actions())) != want_clone && bad.is_none() {
                    bad = Some((i, "a clone made while the state was asked for the first time"));
                }
            }
            if let (Some(c), Some(w)) = (child, want_child) {
                if mix64(fp_str(&actions_text(&c.valid_actions())) ^ c.can_pass(true) as u64) != w && bad.is_none() {
                    bad = Some((i, "a successor made while the state was asked for the first time"));
                }
            }
        }
        bad
    });
    let a = asker.join().ok().flatten();
    let b = copier.join().ok().flatten();
    watch::close(gid);
    a.or(b)
}

fn expand(g: &GameState, depth: u8, t: &mut Transcript) {
    let va = observe(g, t);
    if depth == 0 || g.is_terminal().is_some() {
        return;
    }
    for a in va.iter() {
        let c = g.take_action(a);
        t.put(c.transposition_hash());
        if depth > 1 {
            expand(&c, depth - 1, t);
        }
    }
}

fn run_ops(ops: &[Op], root: &Arc<GameState>, cur: &mut GameState, t: &mut Transcript) {
    for op in ops {
        match op {
            Op::Expand(d) => expand(cur, *d, t),
            Op::CloneDrop(n, rev) => {
                let mut v: Vec<GameState> = (0..*n).map(|_| cur.clone()).collect();
                for c in v.iter() {
                    t.put(c.transposition_hash());
                }
                if *rev {
                    v.reverse();
                }
                drop(v);
            }
            Op::Walk(sels) => {
                for s in sels {
                    if cur.is_terminal().is_some() {
                        break;
                    }
                    let va = cur.valid_actions();
                    if va.is_empty() {
                        break;
                    }
                    let a = va[(*s as usize * va.len()) >> 16];
                    t.put_str(&action_text(&a));
                    *cur = cur.take_action(&a);
                }
                observe(cur, t);
            }
            Op::Query => {
                observe(cur, t);
                t.put_str(&cur.to_string());
            }
            Op::Root => *cur = (**root).clone(),
        }
    }
}

fn children_to_hand(cur: &GameState, n: u8) -> Vec<GameState> {
    if cur.is_terminal().is_some() {
        return vec![];
    }
    cur.valid_actions().iter().take(n as usize).map(|a| cur.take_action(a)).collect()
}

/// Runs the programs; concurrent = one OS thread per program, started on a barrier.
fn execute(root: &Arc<GameState>, progs: &[Prog], concurrent: bool) -> Vec<(u64, u64)> {
    let n = progs.len();
    if !concurrent {
        let mut curs: Vec<GameState> = (0..n).map(|_| (**root).clone()).collect();
        let mut ts: Vec<Transcript> = (0..n).map(|_| Transcript::default()).collect();
        let mut handed: Vec<Vec<GameState>> = vec![];
        for i in 0..n {
            run_ops(&progs[i].phase1, root, &mut curs[i], &mut ts[i]);
            handed.push(children_to_hand(&curs[i], progs[i].hand));
        }
        for i in 0..n {
            let from = (i + n - 1) % n;
            let batch = std::mem::take(&mut handed[from]);
            ts[i].put(batch.len() as u64);
            for mut g in batch {
                run_ops(&progs[i].phase2, root, &mut g, &mut ts[i]);
                observe(&g, &mut ts[i]);
            }
        }
        return ts.into_iter().map(|t| (t.h, t.items)).collect();
    }
    let barrier = Arc::new(Barrier::new(n));
    let gid = watch::new_group(n, "programs");
    let mut txs = vec![];
    let mut rxs = vec![];
    for _ in 0..n {
        let (tx, rx) = mpsc::channel::<Vec<GameState>>();
        txs.push(Some(tx));
        rxs.push(Some(rx));
    }
    let mut handles = vec![];
    for i in 0..n {
        let root = root.clone();
        let prog = progs[i].clone();
        let barrier = barrier.clone();
        let tx = txs[(i + 1) % n].take().unwrap(); // thread i sends to thread i+1
        let rx = rxs[i].take().unwrap();
        handles.push(std::thread::spawn(move || {
            let _member = watch::enter(gid);
            let mut t = Transcript::default();
            let mut cur = (*root).clone();
            barrier.wait();
            run_ops(&prog.phase1, &root, &mut cur, &mut t);
            let _ = tx.send(children_to_hand(&cur, prog.hand));
            let batch = rx.recv().unwrap_or_default();
            t.put(batch.len() as u64);
            for mut g in batch {
                run_ops(&prog.phase2, &root, &mut g, &mut t);
                observe(&g, &mut t);
            }
            drop(cur);
            (t.h, t.items)
        }));
    }
    let out = handles.into_iter().map(|h| h.join().unwrap_or((0xdead, 0))).collect();
    watch::close(gid);
    out
}


// ---------------------------------------------------------------------------------------------
// Exchange scenario: several threads play *different* recurrence-heavy lines from a common root in
// lock-step (one turn per round) and look at each other's states after every round. The data flow is
// fixed by barriers, so the same scenario can be run on one thread; anything that is remembered per
// thread about "the last history looked at" (ids, caches) is then exercised with histories of equal
// length but different content.
// ---------------------------------------------------------------------------------------------

fn inverse_of(a: &Action) -> Option<Action> {
    use arimaa_verif::model as m;
    match to_maction(a) {
        m::MAction::Step { from, dir } => m::neighbour(from, dir).map(|to| to_action(m::MAction::Step { from: to, dir: m::opposite(dir) })),
        _ => None,
    }
}

/// Plays one full turn (until the side to move changes); prefers taking back the steps of this side's
/// previous turn, passes early, otherwise follows the selectors.
fn play_turn(g: &GameState, sels: &[u16], pos: &mut usize, prev_own: &mut Vec<Action>, t: &mut Transcript) -> Option<GameState> {
    let side = g.is_p1_turn_to_move();
    let mut cur = g.clone();
    let mut made: Vec<Action> = vec![];
    for _ in 0..5 {
        if cur.is_terminal().is_some() {
            return None;
        }
        let va = cur.valid_actions();
        t.put_str(&actions_text(&va));
        if va.is_empty() {
            return None;
        }
        let sel = sels[*pos % sels.len()];
        *pos += 1;
        let undo: Vec<Action> = va.iter().copied().filter(|a| prev_own.iter().any(|p| inverse_of(p) == Some(*a))).collect();
        let a = if !made.is_empty() && va.contains(&Action::Pass) && sel % 4 != 0 {
            Action::Pass
        } else if !undo.is_empty() && sel % 8 != 7 {
            undo[(sel as usize / 8) % undo.len()]
        } else {
            va[(sel as usize * va.len()) >> 16]
        };
        made.push(a);
        cur = cur.take_action(&a);
        if cur.is_p1_turn_to_move() != side {
            break;
        }
    }
    *prev_own = made;
    Some(cur)
}

fn exchange(root: &Arc<GameState>, sels: &[Vec<u16>], rounds: usize, concurrent: bool) -> Vec<(u64, u64)> {
    use std::sync::Mutex;
    let n = sels.len();
    if !concurrent {
        let mut states: Vec<GameState> = (0..n).map(|_| (**root).clone()).collect();
        let mut ts: Vec<Transcript> = (0..n).map(|_| Transcript::default()).collect();
        let mut pos = vec![0usize; n];
        let mut prevs: Vec<[Vec<Action>; 2]> = (0..n).map(|_| [vec![], vec![]]).collect();
        for _ in 0..rounds {
            for i in 0..n {
                let side = states[i].is_p1_turn_to_move() as usize;
                let mut pv = std::mem::take(&mut prevs[i][side]);
                states[i] = play_turn(&states[i], &sels[i], &mut pos[i], &mut pv, &mut ts[i]).unwrap_or_else(|| (**root).clone());
                prevs[i][side] = pv;
            }
            let snapshot: Vec<GameState> = states.clone();
            for i in 0..n {
                let other = &snapshot[(i + n - 1) % n];
                // two plies deep: the repetition lookups happen in the middle of the other side's turn
                expand(other, 2, &mut ts[i]);
                observe(&states[i], &mut ts[i]);
            }
        }
        return ts.into_iter().map(|t| (t.h, t.items)).collect();
    }
    let barrier = Arc::new(Barrier::new(n));
    let gid = watch::new_group(n, "exchange scenario");
    let board: Arc<Mutex<Vec<Option<GameState>>>> = Arc::new(Mutex::new(vec![None; n]));
    let hs: Vec<_> = (0..n)
        .map(|i| {
            let root = root.clone();
            let barrier = barrier.clone();
            let board = board.clone();
            let my = sels[i].clone();
            std::thread::spawn(move || {
                let _member = watch::enter(gid);
                let mut t = Transcript::default();
                let mut state = (*root).clone();
                let mut pos = 0usize;
                let mut prevs: [Vec<Action>; 2] = [vec![], vec![]];
                for _ in 0..rounds {
                    let side = state.is_p1_turn_to_move() as usize;
                    let mut pv = std::mem::take(&mut prevs[side]);
                    state = play_turn(&state, &my, &mut pos, &mut pv, &mut t).unwrap_or_else(|| (*root).clone());
                    prevs[side] = pv;
                    board.lock().unwrap()[i] = Some(state.clone());
                    barrier.wait();
                    let other = board.lock().unwrap()[(i + n - 1) % n].clone();
                    barrier.wait();
                    if let Some(o) = other {
                        expand(&o, 2, &mut t);
                    }
                    observe(&state, &mut t);
                }
                (t.h, t.items)
            })
        })
        .collect();
    let out = hs.into_iter().map(|h| h.join().unwrap_or((0xdead, 0))).collect();
    watch::close(gid);
    out
}

// ---------------------------------------------------------------------------------------------
// Sibling scenario: states of one and the same turn (steps 1..3 below one turn start, so they share
// the turn's history) are queried over and over, each by its own thread, all at the same time - what a
// parallel search does with the children of a node. The states are chosen so that the repetition rules
// treat them differently where possible (for some a pass is withheld, for others it is not).
// ---------------------------------------------------------------------------------------------

/// Extends the root by a few turns that prefer taking back the previous own turn, so that positions
/// recur; returns the actions made (empty if the game ends on the way).
fn shuffle_on(root: &GameState, sels: &[u16], turns: usize) -> Vec<Action> {
    let mut out = vec![];
    let mut cur = root.clone();
    let mut prevs: [Vec<Action>; 2] = [vec![], vec![]];
    let mut pos = 0usize;
    let mut t = Transcript::default();
    for _ in 0..turns {
        let side = cur.is_p1_turn_to_move() as usize;
        let mut pv = std::mem::take(&mut prevs[side]);
        match play_turn(&cur, sels, &mut pos, &mut pv, &mut t) {
            Some(n) => {
                out.extend(pv.iter().copied());
                prevs[side] = pv;
                cur = n;
            }
            None => return vec![],
        }
    }
    if cur.is_terminal().is_some() {
        return vec![];
    }
    out
}

/// Paths (1..=2 steps) from a turn start to states of the same turn, those for which the repetition
/// rules withhold something first, alternating with those for which they do not.
fn sibling_paths(root: &GameState, max: usize) -> Vec<Vec<Action>> {
    if !root.is_play_phase() || root.is_terminal().is_some() || root.current_step() != 0 {
        return vec![];
    }
    let side = root.is_p1_turn_to_move();
    let mut special: Vec<Vec<Action>> = vec![];
    let mut plain: Vec<Vec<Action>> = vec![];
    let mut consider = |g: &GameState, path: Vec<Action>| {
        if g.valid_actions().len() != g.valid_actions_no_rep().len() || g.can_pass(true) != g.can_pass(false) {
            special.push(path);
        } else {
            plain.push(path);
        }
    };
    for a in root.valid_actions_no_rep().iter().take(24) {
        let c = root.take_action(a);
        if c.is_p1_turn_to_move() != side || !c.is_play_phase() {
            continue;
        }
        consider(&c, vec![*a]);
        for b in c.valid_actions_no_rep().iter().take(6) {
            let d = c.take_action(b);
            if d.is_p1_turn_to_move() != side {
                continue;
            }
            consider(&d, vec![*a, *b]);
        }
    }
    let mut out = vec![];
    let (mut i, mut j) = (0, 0);
    while out.len() < max && (i < special.len() || j < plain.len()) {
        if i < special.len() {
            out.push(special[i].clone());
            i += 1;
        }
        if out.len() < max && j < plain.len() {
            out.push(plain[j].clone());
            j += 1;
        }
    }
    out
}

fn siblings_run(root: &GameState, paths: &[Vec<Action>], reps: usize, concurrent: bool) -> Vec<(u64, u64)> {
    // the states are built without being queried: the first query of each happens inside the burst
    let states: Vec<GameState> = paths
        .iter()
        .map(|p| {
            let mut g = root.clone();
            for a in p {
                g = g.take_action(a);
            }
            g
        })
        .collect();
    let work = move |g: &GameState| {
        let mut t = Transcript::default();
        for _ in 0..reps {
            observe(g, &mut t);
        }
        (t.h, t.items)
    };
    if !concurrent {
        return states.iter().map(|g| work(g)).collect();
    }
    let barrier = Arc::new(Barrier::new(states.len()));
    let gid = watch::new_group(states.len(), "sibling scenario");
    let hs: Vec<_> = states
        .into_iter()
        .map(|g| {
            let barrier = barrier.clone();
            std::thread::spawn(move || {
                let _member = watch::enter(gid);
                barrier.wait();
                work(&g)
            })
        })
        .collect();
    let out = hs.into_iter().map(|h| h.join().unwrap_or((0xdead, 0))).collect();
    watch::close(gid);
    out
}

fn check_case(c: &ConcCase, st: &mut Stats) -> Check {
    let actions = match root_actions(c) {
        Some(a) => a,
        None => {
            st.bump("root_not_built");
            return Ok(());
        }
    };
    check_parts(&c.game.start, &actions, &c.progs, c.game.aux, st)
}

/// Everything that is done with one case (also what a replay file is run through).
fn check_parts(start: &gen::Start, actions: &[Action], progs: &[Prog], aux: u64, st: &mut Stats) -> Check {
    struct G<'a> {
        start: &'a gen::Start,
        aux: u64,
    }
    struct C<'a> {
        game: G<'a>,
        progs: &'a [Prog],
    }
    let c = &C { game: G { start, aux }, progs };
    watch::CURRENT_CASE.with(|cc| {
        *cc.borrow_mut() = json!({
            "start": drive::start_json(start),
            "actions": actions.iter().map(action_text).collect::<Vec<_>>(),
            "programs": progs.iter().map(prog_json).collect::<Vec<_>>(),
            "aux": aux,
        })
        .to_string()
    });
    let mk = || fresh_root(c.game.start, actions).map(Arc::new);
    let root = match mk() {
        Some(r) => r,
        None => {
            st.bump("root_not_built");
            return Ok(());
        }
    };
    st.eval();
    // concurrent runs first, each on a fresh root; the sequential reference last, on its own root
    let mut cons = vec![];
    for _ in 0..5 {
        let r = mk().unwrap();
        cons.push(guard(|| execute(&r, c.progs, true)).map_err(|p| Fail::new("C18:concurrent_panic", p))?);
    }
    let seq_root = mk().unwrap();
    let seq = guard(|| execute(&seq_root, c.progs, false)).map_err(|p| Fail::new("C18:sequential_panic", p))?;
    for con in cons.iter() {
        for (i, (a, b)) in seq.iter().zip(con.iter()).enumerate() {
            ensure!(a == b, "C18:transcript", "thread {} of {}: concurrent transcript (hash {:#x}, {} items) differs from the sequential run (hash {:#x}, {} items)", i, seq.len(), b.0, b.1, a.0, a.1);
        }
    }
    // exchange scenario on the same root, selectors taken from the programs' walks
    if root.is_play_phase() && root.is_terminal().is_none() {
        let sels: Vec<Vec<u16>> = c
            .progs
            .iter()
            .take(4)
            .enumerate()
            .map(|(i, p)| {
                let mut v: Vec<u16> = p.phase1.iter().chain(p.phase2.iter()).flat_map(|o| if let Op::Walk(w) = o { w.clone() } else { vec![] }).collect();
                v.push(7919u16.wrapping_mul(i as u16 + 1));
                v.push(c.game.aux as u16 ^ (i as u16 * 977));
                v
            })
            .collect();
        if sels.len() >= 2 {
            let xr = mk().unwrap();
            let xc = guard(|| exchange(&xr, &sels, 14, true)).map_err(|p| Fail::new("C18:concurrent_panic", p))?;
            let xs_root = mk().unwrap();
            let xs = guard(|| exchange(&xs_root, &sels, 14, false)).map_err(|p| Fail::new("C18:sequential_panic", p))?;
            for (i, (a, b)) in xs.iter().zip(xc.iter()).enumerate() {
                ensure!(a == b, "C18:transcript", "exchange scenario, thread {} of {}: playing different lines from one root on several threads and looking at each other's states gave a transcript (hash {:#x}, {} items) that differs from the same scenario on one thread (hash {:#x}, {} items)", i, xs.len(), b.0, b.1, a.0, a.1);
            }
            st.bump("exchange_scenarios");
        }
    }
    // sibling scenario below the *start position itself* after three and after seven shuffling turns:
    // there the positions that come round again include the very first entry of the history
    if let gen::Start::Pos(_) = start {
        let sels: Vec<u16> = progs.iter().flat_map(|p| p.phase1.iter().chain(p.phase2.iter())).flat_map(|o| if let Op::Walk(w) = o { w.clone() } else { vec![] }).chain([aux as u16 ^ 0x5a5a, 31337]).collect();
        let mk0 = || fresh_root(start, &[]).map(Arc::new);
        for turns in [3usize, 7] {
            let scratch = match mk0() {
                Some(s) if s.is_play_phase() && s.is_terminal().is_none() => s,
                _ => break,
            };
            let more = guard(|| shuffle_on(&scratch, &sels, turns)).unwrap_or_default();
            if more.is_empty() {
                continue;
            }
            let build = |fresh: Arc<GameState>| -> GameState {
                let mut g = (*fresh).clone();
                for a in more.iter() {
                    g = g.take_action(a);
                }
                g
            };
            let sroot = build(mk0().unwrap());
            let paths = guard(|| sibling_paths(&sroot, 6)).unwrap_or_default();
            if paths.len() < 2 {
                continue;
            }
            let con = guard(|| siblings_run(&build(mk0().unwrap()), &paths, 60, true)).map_err(|p| Fail::new("C18:concurrent_panic", p))?;
            let seq = guard(|| siblings_run(&build(mk0().unwrap()), &paths, 60, false)).map_err(|p| Fail::new("C18:sequential_panic", p))?;
            for (i, (a, b)) in seq.iter().zip(con.iter()).enumerate() {
                ensure!(a == b, "C18:transcript", "sibling scenario below the start position after {} shuffling turns, state {} of {}: states of one turn queried repeatedly, each by its own thread at the same time, gave a transcript (hash {:#x}, {} items) that differs from the same queries on one thread (hash {:#x}, {} items); shuffle {}; siblings: {}", turns, i, seq.len(), b.0, b.1, a.0, a.1, actions_text(&more), paths.iter().map(|p| actions_text(p)).collect::<Vec<_>>().join(" | "));
            }
            st.bump("sibling_scenarios_below_the_start_position");
        }
    }
    // sibling scenario below the root after some shuffling turns
    if root.is_play_phase() && root.is_terminal().is_none() {
        let sels: Vec<u16> = c.progs.iter().flat_map(|p| p.phase1.iter().chain(p.phase2.iter())).flat_map(|o| if let Op::Walk(w) = o { w.clone() } else { vec![] }).chain([c.game.aux as u16, 40503]).collect();
        let scratch = mk().unwrap();
        let more = guard(|| shuffle_on(&scratch, &sels, 9)).unwrap_or_default();
        let build = |fresh: Arc<GameState>| -> Option<GameState> {
            let mut g = (*fresh).clone();
            for a in more.iter() {
                g = g.take_action(a);
            }
            Some(g)
        };
        let sroot = build(mk().unwrap()).unwrap();
        let paths = guard(|| sibling_paths(&sroot, 8)).unwrap_or_default();
        if paths.len() >= 2 {
            for round in 0..2 {
                let r1 = build(mk().unwrap()).unwrap();
                let con = guard(|| siblings_run(&r1, &paths, 150, true)).map_err(|p| Fail::new("C18:concurrent_panic", p))?;
                let r2 = build(mk().unwrap()).unwrap();
                let seq = guard(|| siblings_run(&r2, &paths, 150, false)).map_err(|p| Fail::new("C18:sequential_panic", p))?;
                for (i, (a, b)) in seq.iter().zip(con.iter()).enumerate() {
                    ensure!(a == b, "C18:transcript", "sibling scenario (round {}), state {} of {}: states of one turn queried repeatedly, each by its own thread at the same time, gave a transcript (hash {:#x}, {} items) that differs from the same queries on one thread (hash {:#x}, {} items); siblings: {}", round, i, seq.len(), b.0, b.1, a.0, a.1, paths.iter().map(|p| actions_text(p)).collect::<Vec<_>>().join(" | "));
                }
            }
            st.bump("sibling_scenarios");
            // same-object scenario on the deepest of these states and on a state at the last step of the turn
            let mut targets: Vec<Vec<Action>> = vec![];
            // (the first path is one for which the repetition rules withhold something, if there is any)
            targets.push(paths[0].clone());
            if let Some(p) = paths.iter().max_by_key(|p| p.len()) {
                targets.push(p.clone());
                // extend to step 3 through rule-only steps that stay inside the turn
                let mut g = sroot.clone();
                let mut path = vec![];
                for a in p.iter() {
                    g = g.take_action(a);
                    path.push(*a);
                }
                while g.is_play_phase() && g.current_step() < 3 && g.current_step() > 0 {
                    let side = g.is_p1_turn_to_move();
                    let next = g.valid_actions_no_rep().into_iter().find(|a| matches!(a, Action::Move(..)) && g.take_action(a).is_p1_turn_to_move() == side);
                    match next {
                        Some(a) => {
                            g = g.take_action(&a);
                            path.push(a);
                        }
                        None => break,
                    }
                }
                if path.len() > p.len() {
                    targets.push(path);
                }
            }
            for (ti, path) in targets.iter().enumerate() {
                for first_query in [1usize, 0, 3, 8] {
                    let mk_state = |fresh: Arc<GameState>| -> Arc<GameState> {
                        let mut g = build(fresh).unwrap();
                        for a in path.iter() {
                            g = g.take_action(a);
                        }
                        Arc::new(g)
                    };
                    let con = guard(|| same_object_run(&mk_state(mk().unwrap()), 6, 12, first_query, true)).map_err(|p| Fail::new("C18:concurrent_panic", p))?;
                    let seq = guard(|| same_object_run(&mk_state(mk().unwrap()), 6, 12, first_query, false)).map_err(|p| Fail::new("C18:sequential_panic", p))?;
                    for (i, (a, b)) in seq.iter().zip(con.iter()).enumerate() {
                        ensure!(a == b, "C18:transcript", "same-object scenario (target {}, first query {}), thread {} of {}: one state object asked by several threads at the same time, each starting at a different query, gave a transcript (hash {:#x}, {} items) that differs from the same queries on one thread (hash {:#x}, {} items); state reached by {}", ti, first_query, i, seq.len(), b.0, b.1, a.0, a.1, actions_text(path));
                    }
                }
            }
            st.bump("same_object_scenarios");
            // fresh-object race on the first target (a state for which something is withheld, if any) and on
            // its parent
            // (only where the repetition rules withhold something: elsewhere nothing would show)
            let withheld_something = guard(|| {
                let mut g = build(mk().unwrap()).unwrap();
                for a in targets[0].iter() {
                    g = g.take_action(a);
                }
                g.valid_actions().len() != g.valid_actions_no_rep().len() || g.can_pass(true) != g.can_pass(false)
            })
            .unwrap_or(false);
            for cut in [0usize, 1] {
                if !withheld_something {
                    break;
                }
                let path = &targets[0];
                if path.len() < cut + 1 {
                    continue;
                }
                let upto = path.len() - cut;
                let mut g = build(mk().unwrap()).unwrap();
                for a in path[..upto].iter() {
                    g = g.take_action(a);
                }
                // the next step, known from the path or from a scratch copy
                let step = if cut == 1 { Some(path[upto]) } else { g.clone().valid_actions_no_rep().into_iter().find(|a| matches!(a, Action::Move(..))) };
                let r = guard(|| fresh_object_race(&g, step, 300)).map_err(|p| Fail::new("C18:concurrent_panic", p))?;
                ensure!(r.is_none(), "C18:transcript", "fresh-object race: copy number {} of a never-queried state - {} offers something else than it does when nothing runs alongside; state reached by {}", r.map(|x| x.0).unwrap_or(0), r.map(|x| x.1).unwrap_or(""), actions_text(&path[..upto]));
            }
            st.bump("fresh_object_races");
            let sp = guard(|| {
                paths.iter().filter(|p| {
                    let mut g = sroot.clone();
                    for a in p.iter() {
                        g = g.take_action(a);
                    }
                    g.valid_actions().len() != g.valid_actions_no_rep().len() || g.can_pass(true) != g.can_pass(false)
                }).count()
            }).unwrap_or(0);
            if sp > 0 && sp < paths.len() {
                st.bump("sibling_scenarios_with_and_without_withheld_actions");
            }
        }
    }
    let expanders = c.progs.iter().filter(|p| matches!(p.phase1.first(), Some(Op::Expand(_)) | Some(Op::Query) | Some(Op::CloneDrop(..)) | Some(Op::Walk(_)))).count();
    let handed: u64 = c.progs.iter().map(|p| p.hand as u64).sum();
    st.add("threads", c.progs.len() as u64);
    st.add("concurrent_executions", 5);
    st.add("transcript_items", seq.iter().map(|x| x.1).sum());
    if root.is_play_phase() {
        st.bump("root_in_play_phase");
        let pp = root.unwrap_play_phase();
        st.add("root_history_len", pp.hash_history().len() as u64);
        if pp.step() > 0 {
            st.bump("root_mid_turn");
        }
        let h: Vec<u64> = pp.hash_history().iter().map(|z| z.board_state_hash()).collect();
        let mut hs = h.clone();
        hs.sort();
        hs.dedup();
        if hs.len() < h.len() {
            st.bump("root_with_recurrence_in_history");
        }
        if root.valid_actions().len() != root.valid_actions_no_rep().len() {
            st.bump("root_with_withheld_action");
        }
    }
    if expanders >= 2 && handed >= 1 {
        st.nontrivial(fp_combine(seq.iter().fold(0, |acc, x| mix64(acc ^ x.0)), c.progs.len() as u64));
    }
    Ok(())
}
use arimaa_verif::ensure;

fn case_json(c: &ConcCase) -> Value {
    // plain data: the root as start + actions, the programs in debug form (replayed by re-parsing)
    let actions = root_actions(c).unwrap_or_default();
    json!({
        "start": drive::start_json(&c.game.start),
        "actions": actions.iter().map(action_text).collect::<Vec<_>>(),
        "programs": c.progs.iter().map(prog_json).collect::<Vec<_>>(),
        "aux": c.game.aux,
    })
}
fn op_json(o: &Op) -> Value {
    match o {
        Op::Expand(d) => json!({"expand": d}),
        Op::CloneDrop(n, r) => json!({"clone_drop": n, "reverse": r}),
        Op::Walk(s) => json!({"walk": s}),
        Op::Query => json!("query"),
        Op::Root => json!("root"),
    }
}
fn prog_json(p: &Prog) -> Value {
    json!({"phase1": p.phase1.iter().map(op_json).collect::<Vec<_>>(), "hand": p.hand, "phase2": p.phase2.iter().map(op_json).collect::<Vec<_>>()})
}
fn op_from(v: &Value) -> Option<Op> {
    if v == "query" {
        return Some(Op::Query);
    }
    if v == "root" {
        return Some(Op::Root);
    }
    if let Some(d) = v.get("expand") {
        return Some(Op::Expand(d.as_u64()? as u8));
    }
    if let Some(n) = v.get("clone_drop") {
        return Some(Op::CloneDrop(n.as_u64()? as u8, v["reverse"].as_bool()?));
    }
    if let Some(w) = v.get("walk") {
        return Some(Op::Walk(w.as_array()?.iter().filter_map(|x| x.as_u64().map(|y| y as u16)).collect()));
    }
    None
}

fn replay(path: &str) -> i32 {
    let text = std::fs::read_to_string(path).expect("read replay");
    let v: Value = serde_json::from_str(&text).expect("json");
    let case = &v["case"];
    if let Some(n) = case.get("crowd").and_then(|x| x.as_u64()) {
        for _ in 0..5 {
            if let Some(msg) = crowd(n as usize) {
                println!("C18:transcript: crowd scenario: {}", msg);
                return 1;
            }
        }
        return 0;
    }
    let start = drive::start_from_json(&case["start"]).expect("start");
    let actions: Vec<Action> = case["actions"].as_array().unwrap().iter().map(|x| drive::parse_action_text(x.as_str().unwrap()).unwrap()).collect();
    let progs: Vec<Prog> = case["programs"]
        .as_array()
        .unwrap()
        .iter()
        .map(|p| Prog {
            phase1: p["phase1"].as_array().unwrap().iter().filter_map(op_from).collect(),
            hand: p["hand"].as_u64().unwrap() as u8,
            phase2: p["phase2"].as_array().unwrap().iter().filter_map(op_from).collect(),
        })
        .collect();
    // a schedule-dependent failure may need several attempts; every execution gets a fresh root
    let aux = case["aux"].as_u64().unwrap_or(0);
    for _ in 0..60 {
        let mut st = Stats::default();
        if let Err(f) = check_parts(&start, &actions, &progs, aux, &mut st) {
            println!("{}: {}", f.clause, f.detail);
            return 1;
        }
    }
    0
}



/// Cold start under contention: this process has done nothing with the engine except building one
/// state (parser + take_action). Eight threads released together then query and expand it for the
/// first time; afterwards the same work is done sequentially and must give the same transcripts.
/// Anything the engine initialises lazily on first use (a table, a cache, a once-cell) is initialised
/// inside that burst. usage: c18_conc firstuse <file.json> ; exit 1 + message on a difference.
fn firstuse(path: &str) -> i32 {
    use std::sync::atomic::{AtomicUsize, Ordering};
    let text = std::fs::read_to_string(path).expect("read");
    let v: Value = serde_json::from_str(&text).expect("json");
    let diagram = v["diagram"].as_str().expect("diagram");
    let actions: Vec<Action> = v["actions"].as_array().unwrap().iter().map(|x| drive::parse_action_text(x.as_str().unwrap()).unwrap()).collect();
    let threads = v["threads"].as_u64().unwrap_or(8) as usize;
    // nothing but parser + take_action before the burst
    let mut g: GameState = diagram.parse().expect("diagram parses");
    for a in actions.iter() {
        g = g.take_action(a);
    }
    let root = Arc::new(g);
    let go = Arc::new(AtomicUsize::new(0));
    let hs: Vec<_> = (0..threads)
        .map(|_| {
            let root = root.clone();
            let go = go.clone();
            std::thread::spawn(move || {
                go.fetch_add(1, Ordering::SeqCst);
                while go.load(Ordering::SeqCst) < threads {
                    std::hint::spin_loop();
                }
                let mut t = Transcript::default();
                t.put(root.transposition_hash());
                expand(&root, 2, &mut t);
                (t.h, t.items)
            })
        })
        .collect();
    let con: Vec<(u64, u64)> = hs.into_iter().map(|h| h.join().unwrap_or((0xdead, 0))).collect();
    let mut t = Transcript::default();
    t.put(root.transposition_hash());
    expand(&root, 2, &mut t);
    let seq = (t.h, t.items);
    for (i, c) in con.iter().enumerate() {
        if *c != seq {
            println!("C18:cold_start: thread {} of {}: the first concurrent use of a freshly built state gave a transcript (hash {:#x}, {} items) that differs from the sequential one (hash {:#x}, {} items)", i, threads, c.0, c.1, seq.0, seq.1);
            return 1;
        }
    }
    0
}

/// Crowd scenario (once per run): far more threads than cores, all alive at the same time, every one of
/// them asking a shared state at the last step of a turn (and a turn-start state) for everything, twice,
/// with a rendezvous in between so that none has exited before all have asked. Per-thread or pooled
/// resources sized for "a reasonable number of threads" run out here. Returns a description of the
/// first thread that panicked or answered differently from the one-thread run.
fn crowd(threads: usize) -> Option<String> {
    let start: GameState = "7g\n +-----------------+\n8| r r r   r r r r |\n7|       e         |\n6|     x     x     |\n5|                 |\n4|       E         |\n3|     x     x     |\n2|         H       |\n1| R R R R   R R R |\n +-----------------+\n   a b c d e f g h".parse().ok()?;
    // a history with a repeated position, then three steps into the turn
    let mut g = start.clone();
    for t in ["d4n", "p", "d7n", "p", "d5s", "p", "d8s", "p", "d4n", "p", "d7n", "p"] {
        let a: Action = t.parse().ok()?;
        if !g.valid_actions().contains(&a) {
            break;
        }
        g = g.take_action(&a);
    }
    let turn_start = g.clone();
    for t in ["e2n", "e3n", "e4e"] {
        let a: Action = t.parse().ok()?;
        if g.valid_actions().contains(&a) {
            g = g.take_action(&a);
        }
    }
    let states = Arc::new([g, turn_start]);
    let want: Vec<u64> = states.iter().map(|s| { let mut t = Transcript::default(); observe_rotated(s, &mut t, 0); t.h }).collect();
    let want = Arc::new(want);
    let barrier = Arc::new(Barrier::new(threads));
    let gid = watch::new_group(threads, "crowd scenario");
    let hs: Vec<_> = (0..threads)
        .map(|i| {
            let (states, want, barrier) = (states.clone(), want.clone(), barrier.clone());
            std::thread::Builder::new().stack_size(256 * 1024).spawn(move || {
                let _member = watch::enter(gid);
                barrier.wait();
                let mut bad = None;
                for round in 0..2 {
                    for (k, s) in states.iter().enumerate() {
                        for rep in 0..30 {
                            match guard(|| {
                                let mut t = Transcript::default();
                                observe_rotated(s, &mut t, 0);
                                t.h
                            }) {
                                Ok(h) => {
                                    if h != want[k] && bad.is_none() {
                                        bad = Some(format!("thread {} of {} got a different answer (round {}, state {}, repetition {})", i, threads, round, k, rep));
                                    }
                                }
                                Err(p) => {
                                    if bad.is_none() {
                                        bad = Some(format!("thread {} of {} (all alive and asking the same two states) panicked: {}", i, threads, p));
                                    }
                                }
                            }
                        }
                    }
                    // a burst of the cheapest query from every thread at once (threads that are preempted in the
                    // middle of it keep whatever they hold)
                    for _ in 0..(if round == 0 { 100_000 } else { 2_000 }) {
                        if let Err(p) = guard(|| (states[1].is_terminal().is_some(), states[1].has_move(states[1].piece_board()).is_some())) {
                            if bad.is_none() {
                                bad = Some(format!("thread {} of {} (all alive, all asking is_terminal / has_move of one turn-start state) panicked: {}", i, threads, p));
                            }
                            break;
                        }
                    }
                    barrier.wait();
                }
                bad
            })
        })
        .collect();
    let mut out = None;
    for (i, h) in hs.into_iter().enumerate() {
        match h {
            Ok(j) => match j.join() {
                Ok(Some(b)) => out = out.or(Some(b)),
                Ok(None) => {}
                Err(_) => out = out.or(Some(format!("thread {} of {} panicked while the others were alive and asking the same states", i, threads))),
            },
            Err(_) => {}
        }
    }
    watch::close(gid);
    out
}

fn main() {
    install_hook();
    let args: Vec<String> = std::env::args().collect();
    if args.len() >= 3 && args[1] == "replay" {
        watch::start(1);
        std::process::exit(replay(&args[2]));
    }
    if args.len() >= 3 && args[1] == "firstuse" {
        std::process::exit(firstuse(&args[2]));
    }
    watch::start(3);
    if let Some(msg) = crowd(160) {
        println!("{}", json!({"evaluations": 1, "nontrivial": [], "counters": {}, "samples": [], "violation": {"clause": "C18:transcript", "detail": format!("crowd scenario: {}", msg), "case": {"crowd": 160}}}));
        return;
    }
    let seed: u64 = args[2].parse().unwrap();
    let cases: u32 = args[3].parse().unwrap();
    let shards: usize = args[4].parse().unwrap();
    let mut total = Stats::default();
    let mut violation: Option<Value> = None;
    // shards run one after another: each case already uses up to 8 threads, and oversubscription
    // (more threads than cores) is wanted for interleaving variety, so run 4 shards at a time
    let results: Vec<(Stats, Option<Value>)> = std::thread::scope(|sc| {
        (0..shards)
            .map(|shard| {
                sc.spawn(move || {
                    let mut runner = TestRunner::new({
                        let mut c = proptest_config(cases, shard_seed(seed, "C18", 0, shard));
                        c.max_shrink_iters = 200;
                        c
                    });
                    let st = RefCell::new(Stats::default());
                    let res = runner.run(&conc_case(), |c: ConcCase| {
                        let mut s = st.borrow_mut();
                        match check_case(&c, &mut s) {
                            Ok(()) => {
                                if shard == 0 {
                                    s.sample(3, || case_json(&c));
                                }
                                Ok(())
                            }
                            Err(f) => {
                                s.frozen = true;
                                Err(TestCaseError::fail(f.clause))
                            }
                        }
                    });
                    let mut stats = st.into_inner();
                    stats.frozen = false;
                    let v = match res {
                        Ok(()) => None,
                        Err(TestError::Fail(reason, minimal)) => {
                            // the failure is schedule dependent: try to get the full message again
                            let mut detail = format!("{}", reason);
                            for _ in 0..50 {
                                let mut tmp = Stats::default();
                                if let Err(f) = check_case(&minimal, &mut tmp) {
                                    detail = format!("{} (programs: {} threads; root reached after {} actions)", f.detail, minimal.progs.len(), root_actions(&minimal).map(|a| a.len()).unwrap_or(0));
                                    break;
                                }
                            }
                            Some(json!({"clause": "C18:transcript", "detail": detail, "case": case_json(&minimal)}))
                        }
                        Err(TestError::Abort(r)) => Some(json!({"abort": format!("{}", r)})),
                    };
                    (stats, v)
                })
            })
            .collect::<Vec<_>>()
            .into_iter()
            .map(|h| h.join().unwrap())
            .collect()
    });
    for (s, v) in results {
        total.merge(s);
        if violation.is_none() {
            violation = v;
        }
    }
    let out = json!({
        "evaluations": total.evaluations,
        "nontrivial": total.nontrivial.iter().collect::<Vec<_>>(),
        "counters": total.counters,
        "samples": total.samples,
        "violation": violation,
    });
    println!("{}", out);
}
