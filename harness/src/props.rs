//! Oracle clauses per property, as observers of the walker / expander (DESIGN.md §4).
//! Each clause asserts only what the property text states (DESIGN.md §3.8).

use crate::core::*;
use crate::drive::{Edge, Obs, View};
use crate::ensure;
use crate::gen::Start;
use crate::model::{self as m, Board, MAction, Parse, Status, Withheld};
use arimaa_engine_step::{
    Action, GameState, Piece, PieceBoard, PieceBoardState, PushPullState, Square, Zobrist,
};
use serde_json::json;
use std::collections::hash_map::DefaultHasher;
use std::collections::{BTreeSet, HashMap};
use std::hash::{Hash, Hasher};

fn mset(v: &[Action]) -> BTreeSet<MAction> {
    v.iter().map(to_maction).collect()
}
fn has_dup(v: &[Action]) -> bool {
    mset(v).len() != v.len()
}
fn steer_ok<'a, T>(r: &'a Result<T, String>, st: &mut Stats) -> Option<&'a T> {
    match r {
        Ok(v) => Some(v),
        Err(_) => {
            st.bump("oracle_skipped_engine_panic_in_listing");
            None
        }
    }
}

// =====================================================================================
// C01
// =====================================================================================
pub struct C01;

impl Obs for C01 {
    fn on_state(&mut self, v: &View, st: &mut Stats) -> Check {
        if v.m.setup {
            return Ok(());
        }
        let vanr = match steer_ok(v.vanr(), st) {
            Some(l) => l,
            None => return Ok(()),
        };
        st.eval();
        let got = mset(vanr);
        let want = v.m.offered_norep();
        ensure!(!has_dup(vanr), "C01:duplicate", "an action is listed twice at {}: {}", v.describe(), actions_text(vanr));
        if got != want {
            let extra: Vec<_> = got.difference(&want).collect();
            let missing: Vec<_> = want.difference(&got).collect();
            let clause = if !extra.is_empty() { "C01:illegal_offered" } else { "C01:legal_missing" };
            return Err(Fail::new(
                clause,
                format!(
                    "rule-only list differs from the legal steps at {}: offered but illegal [{}], legal but missing [{}]",
                    v.describe(),
                    mactions_text(extra),
                    mactions_text(missing)
                ),
            ));
        }
        let pass_in = got.contains(&MAction::Pass);
        ensure!(
            pass_in == v.m.pass_legal_norep(),
            "C01:pass",
            "pass offered={} but steps made={} and push pending in every reading={} at {}",
            pass_in,
            v.m.step,
            v.m.push_pending_in_every_parse(),
            v.describe()
        );
        // every offered step can be continued to a complete legal turn: a state in which a push is
        // pending has a completing step (and it is reached at step <= 3 by construction)
        if v.m.push_pending_in_every_parse() {
            ensure!(
                !got.is_empty() && v.m.step <= 3 && v.m.step >= 1,
                "C01:dead_end",
                "push pending but no completing step is offered at {}",
                v.describe()
            );
        }
        // ---- statistics / non-triviality
        let b = &v.m.board;
        let mut enemy_step = false;
        for a in want.iter() {
            if let MAction::Step { from, .. } = a {
                if m::is_gold(b.at(*from)) != v.m.gold_to_move {
                    enemy_step = true;
                }
            }
        }
        let mut frozen_mover = false;
        let mut rabbit_back_free = false;
        for sq in 0..64u8 {
            let c = b.at(sq);
            if c != m::EMPTY && m::is_gold(c) == v.m.gold_to_move {
                if b.is_frozen(sq) {
                    frozen_mover = true;
                }
                if m::kind(c) == m::R {
                    let back = if v.m.gold_to_move { 2 } else { 0 };
                    if let Some(t) = m::neighbour(sq, back) {
                        if b.at(t) == m::EMPTY && !b.is_frozen(sq) {
                            rabbit_back_free = true;
                        }
                    }
                }
            }
        }
        st.bump(&format!("state_step{}", v.m.step));
        if enemy_step {
            st.bump("state_with_enemy_step_legal");
        }
        if frozen_mover {
            st.bump("state_with_frozen_mover_piece");
        }
        if rabbit_back_free {
            st.bump("state_with_rabbit_backward_square_empty");
        }
        if v.m.parse.len() > 1 {
            st.bump("state_with_ambiguous_parse");
        }
        if v.m.parse.iter().any(|p| matches!(p, Parse::PushPending { .. })) {
            st.bump(&format!("state_push_pending_step{}", v.m.step));
        }
        if v.m.parse.iter().any(|p| matches!(p, Parse::Stepped { .. })) {
            st.bump(&format!("state_pull_possible_step{}", v.m.step));
        }
        if !v.m.gold_to_move {
            st.bump("state_silver_to_move");
        }
        if enemy_step || frozen_mover || rabbit_back_free || v.m.step == 3 {
            st.nontrivial(v.m.fingerprint());
        }
        Ok(())
    }
}

// =====================================================================================
// C02
// =====================================================================================
pub struct C02;

impl Obs for C02 {
    fn on_edge(&mut self, e: &Edge, st: &mut Stats) -> Check {
        let before = &e.before.m.board;
        match e.maction {
            MAction::Place(_) => return Ok(()),
            MAction::Pass => {
                st.eval();
                let after = read_board(e.after_eng.piece_board())
                    .map_err(|s| Fail::new("C02:pass_board", format!("{} after pass at {}", s, e.before.describe())))?;
                ensure!(after == *before, "C02:pass_board", "pass changed the board at {}: now {}", e.before.describe(), board_text(&after));
                st.bump("edge_pass");
                return Ok(());
            }
            MAction::Step { from, dir } => {
                st.eval();
                let after = read_board(e.after_eng.piece_board()).map_err(|s| {
                    Fail::new("C02:board_inconsistent", format!("{} after {} at {}", s, e.maction.text(), e.before.describe()))
                })?;
                // statement, spelled out without the model's step(): piece moves one square onto an
                // empty square keeping type and owner; afterwards exactly the unsupported trap pieces
                // are removed; nothing else changes.
                let to = m::neighbour(from, dir);
                ensure!(to.is_some(), "C02:off_board", "offered step {} leaves the board at {}", e.maction.text(), e.before.describe());
                let to = to.unwrap();
                let c = before.at(from);
                ensure!(c != m::EMPTY && before.at(to) == m::EMPTY, "C02:step_shape", "offered step {} has no piece to move or an occupied target at {}", e.maction.text(), e.before.describe());
                let mut moved = *before;
                moved.0[from as usize] = m::EMPTY;
                moved.0[to as usize] = c;
                let mut expect = moved;
                let mut removed = vec![];
                for &t in m::TRAPS.iter() {
                    let tc = moved.at(t);
                    if tc != m::EMPTY && !moved.has_friend_adjacent(t, m::is_gold(tc)) {
                        expect.0[t as usize] = m::EMPTY;
                        removed.push((t, tc));
                    }
                }
                if after != expect {
                    let diff: Vec<String> = (0..64u8)
                        .filter(|&i| after.at(i) != expect.at(i))
                        .map(|i| format!("{}: expected '{}' got '{}'", m::sq_name(i), m::code_letter(expect.at(i)), m::code_letter(after.at(i))))
                        .collect();
                    return Err(Fail::new(
                        "C02:board_after_step",
                        format!("after {} at {} the board differs: {}", e.maction.text(), e.before.describe(), diff.join("; ")),
                    ));
                }
                ensure!(expect == e.after_m.board, "C02:model_self_check", "model step() disagrees with the spelled-out rule at {}", e.before.describe());
                // material never increases, nothing changes type or colour
                for code in 1..16u8 {
                    ensure!(after.count(code) <= before.count(code), "C02:material_increase", "material of '{}' increased by {} at {}", m::code_letter(code), e.maction.text(), e.before.describe());
                }
                // ---- statistics
                let mover_side = if m::is_gold(c) == e.before.m.gold_to_move { "own" } else { "enemy" };
                for &(t, tc) in removed.iter() {
                    let cause = if t == to { "stepped_in" } else { "supporter_left" };
                    let key = format!("capture_{}_{}_{}_{}piece", if m::is_gold(tc) { "gold" } else { "silver" }, m::sq_name(t), cause, mover_side);
                    st.bump(&key);
                    st.nontrivial(fp_combine(before.fingerprint(), (from as u64) << 8 | dir as u64));
                }
                if m::is_trap(to) && removed.iter().all(|r| r.0 != to) {
                    st.bump("step_onto_trap_survives");
                    st.nontrivial(fp_combine(before.fingerprint(), (from as u64) << 8 | dir as u64));
                }
                for &t in m::TRAPS.iter() {
                    if m::neighbours(t).any(|n| n == from) && before.at(t) != m::EMPTY && expect.at(t) != m::EMPTY && t != to {
                        let tc = before.at(t);
                        if m::is_gold(tc) == m::is_gold(c) {
                            st.bump("supporter_left_but_another_remains");
                            st.nontrivial(fp_combine(before.fingerprint(), (from as u64) << 8 | dir as u64));
                        }
                    }
                }
                if removed.len() > 1 {
                    st.bump("double_capture");
                }
                st.bump(&format!("edge_step_{}piece", mover_side));
            }
        }
        Ok(())
    }
}

// =====================================================================================
// C03
// =====================================================================================
pub struct C03;

impl Obs for C03 {
    fn on_state(&mut self, v: &View, _st: &mut Stats) -> Check {
        if v.m.setup {
            return Ok(());
        }
        let step = guard(|| v.eng.current_step()).map_err(|p| Fail::new("C03:panic", p))?;
        ensure!(step <= 3, "C03:step_range", "step counter {} out of 0..=3 at {}", step, v.describe());
        Ok(())
    }
    fn on_edge(&mut self, e: &Edge, st: &mut Stats) -> Check {
        let bm = e.before.m;
        if bm.setup {
            return Ok(());
        }
        st.eval();
        let b_side = bm.gold_to_move;
        let b_step = bm.step;
        let b_mn = bm.move_number;
        let a = e.after_eng;
        let (side, step, mn, pp, prev_len, trapped) = guard(|| {
            let pp = a.unwrap_play_phase();
            (a.is_p1_turn_to_move(), a.current_step(), a.move_number(), pp.push_pull_state(), pp.previous_piece_boards().len(), pp.piece_trapped_this_turn())
        })
        .map_err(|p| Fail::new("C03:panic", format!("{} after {} at {}", p, e.maction.text(), e.before.describe())))?;
        let ends = matches!(e.maction, MAction::Pass) || b_step == 3;
        let ctx = || format!("after {} at {}", e.maction.text(), e.before.describe());
        ensure!(step <= 3, "C03:step_range", "step counter {} {}", step, ctx());
        if !ends {
            ensure!(side == b_side, "C03:side_mid_turn", "side to move changed {}", ctx());
            ensure!(step == b_step + 1, "C03:step_increment", "step counter {} instead of {} {}", step, b_step + 1, ctx());
            ensure!(mn == b_mn, "C03:move_number_mid_turn", "move number {} instead of {} {}", mn, b_mn, ctx());
            ensure!(prev_len == step, "C03:per_turn_record", "per-turn record has {} boards at step {} {}", prev_len, step, ctx());
        } else {
            ensure!(side != b_side, "C03:side_after_turn_end", "side to move did not change {}", ctx());
            ensure!(step == 0, "C03:step_after_turn_end", "step counter {} instead of 0 {}", step, ctx());
            ensure!(pp == PushPullState::None, "C03:pending_after_turn_end", "{:?} pending at the start of a turn {}", pp, ctx());
            ensure!(prev_len == 0, "C03:per_turn_record", "per-turn record not fresh ({} boards) {}", prev_len, ctx());
            ensure!(!trapped, "C03:per_turn_record", "capture flag of the previous turn carried over {}", ctx());
            let want = b_mn + if b_side { 0 } else { 1 };
            ensure!(mn == want, "C03:move_number", "move number {} instead of {} {}", mn, want, ctx());
            let how = if matches!(e.maction, MAction::Pass) { format!("pass_at_step{}", b_step) } else { "fourth_step".to_string() };
            let capt = if bm.captured_this_turn || !e.removed.is_empty() { "_capture_in_turn" } else { "" };
            let pullc = if matches!(bm.status, Status::PossiblePull { .. }) && !matches!(e.maction, MAction::Pass) && m::is_gold(bm.board.at(match e.maction { MAction::Step { from, .. } => from, _ => 0 })) != b_side { "_pull_completion" } else { "" };
            let key = format!("turn_end_{}_{}{}{}", if b_side { "gold" } else { "silver" }, how, capt, pullc);
            st.bump(&key);
            st.nontrivial(fp_combine(fp_str(&key), fp_combine(bm.board.fingerprint(), b_mn as u64)));
        }
        // model bookkeeping must agree too (same statement, second derivation)
        ensure!(side == e.after_m.gold_to_move && step == e.after_m.step && mn == e.after_m.move_number, "C03:model_self_check", "model bookkeeping differs {}", ctx());
        Ok(())
    }
}

// =====================================================================================
// C04 (walker part; the constructed positions are driven from runner.rs)
// =====================================================================================
pub struct C04;

pub fn c04_check(v: &View, st: &mut Stats) -> Check {
    let got = v.terminal().as_ref().map_err(|p| Fail::new("C04:panic", format!("{} at {}", p, v.describe())))?;
    st.eval();
    if v.m.setup {
        ensure!(got.is_none(), "C04:setup_result", "result {:?} reported during setup at {}", got, v.describe());
        st.bump("setup_state");
        return Ok(());
    }
    if v.m.step == 0 {
        let want = v.m.result_at_turn_start();
        let b = &v.m.board;
        let mover = v.m.gold_to_move;
        let facts = [b.rabbit_on_goal(!mover), b.rabbit_on_goal(mover), !b.has_rabbit(mover), !b.has_rabbit(!mover), v.m.offered_norep().is_empty()];
        ensure!(
            *got == want.map(|w| w.0),
            "C04:ladder",
            "result {:?} but the official order gives {:?} (rung {:?}; last mover on goal={}, mover on goal={}, mover no rabbits={}, last mover no rabbits={}, mover immobilised={}) at {}",
            got, want.map(|w| w.0), want.map(|w| w.1), facts[0], facts[1], facts[2], facts[3], facts[4], v.describe()
        );
        let bits: u32 = facts.iter().enumerate().map(|(i, &f)| (f as u32) << i).sum();
        st.bump(&format!("turn_start_rung_{}", want.map(|w| w.1).unwrap_or(0)));
        if bits != 0 {
            st.bump(&format!("turn_start_facts_{:05b}_{}", bits, if mover { "gold" } else { "silver" }));
            st.nontrivial(fp_combine(b.fingerprint(), mover as u64));
            for gold in [true, false] {
                let row = if gold { 0 } else { 7 };
                for f in 0..8u8 {
                    if b.at(row * 8 + f) == m::mk(gold, m::R) {
                        st.bump(&format!("goal_square_{}", m::sq_name(row * 8 + f)));
                    }
                }
            }
        }
    } else {
        // mid-turn: goal / elimination do not by themselves end the game
        let va = match v.va() {
            Ok(l) => l,
            Err(_) => return Ok(()),
        };
        if !va.is_empty() {
            ensure!(got.is_none(), "C04:mid_turn_result", "result {:?} reported mid-turn although actions are offered at {}", got, v.describe());
        }
        let b = &v.m.board;
        if b.rabbit_on_goal(true) || b.rabbit_on_goal(false) || !b.has_rabbit(true) || !b.has_rabbit(false) {
            st.bump("mid_turn_state_with_goal_or_elimination");
            st.nontrivial(fp_combine(b.fingerprint(), 77 + v.m.step as u64));
        }
    }
    Ok(())
}

impl Obs for C04 {
    fn on_state(&mut self, v: &View, st: &mut Stats) -> Check {
        c04_check(v, st)
    }
}

// =====================================================================================
// C05
// =====================================================================================
pub struct C05;

impl Obs for C05 {
    fn on_state(&mut self, v: &View, st: &mut Stats) -> Check {
        if v.m.setup {
            return Ok(());
        }
        let va = match steer_ok(v.va(), st) {
            Some(l) => l,
            None => return Ok(()),
        };
        if let Ok(Some(_)) = v.terminal() {
            return Ok(()); // nothing is played from here
        }
        let mut any_withheld = false;
        if let Some(vanr) = steer_ok(v.vanr(), st) {
            any_withheld = vanr.len() != va.len();
        }
        for a in va.iter() {
            let ma = to_maction(a);
            if !v.m.ends_turn(ma) {
                continue;
            }
            st.eval();
            if let Some((rb, _)) = v.m.result_board(ma) {
                let prior = v.m.history.count(&rb, !v.m.gold_to_move);
                ensure!(
                    rb != v.m.turn_boards[0],
                    "C05:turn_leaves_board_unchanged",
                    "offered turn-ending action {} would leave the board as it was at the start of the turn at {}",
                    ma.text(), v.describe()
                );
                ensure!(
                    prior <= 1,
                    "C05:third_occurrence",
                    "offered turn-ending action {} would create the position (board + side to move) for occurrence number {} at {}; board after: {}",
                    ma.text(), prior + 1, v.describe(), board_text(&rb)
                );
                if prior == 1 {
                    st.bump("offered_turn_end_creating_second_occurrence");
                    st.nontrivial(fp_combine(rb.fingerprint(), v.m.history.list.len() as u64));
                }
            }
        }
        if any_withheld {
            st.bump("state_with_withheld_action");
            st.nontrivial(fp_combine(v.m.fingerprint(), v.m.history.list.len() as u64));
        }
        Ok(())
    }
    fn on_edge(&mut self, e: &Edge, st: &mut Stats) -> Check {
        // the invariant over the history itself, on the boards the engine reports
        if e.before.m.setup || !e.before.m.ends_turn(e.maction) {
            return Ok(());
        }
        let after = read_board(e.after_eng.piece_board()).map_err(|s| Fail::new("C05:board_inconsistent", s))?;
        let start = guard(|| read_board(e.before.eng.piece_board_for_step(0)))
            .map_err(|p| Fail::new("C05:panic", p))?
            .map_err(|s| Fail::new("C05:board_inconsistent", s))?;
        ensure!(after != start, "C05:turn_leaves_board_unchanged", "completed turn left the board unchanged: {} at {}", e.maction.text(), e.before.describe());
        let n = e.after_m.history.count(&after, e.after_eng.is_p1_turn_to_move());
        ensure!(n <= 2, "C05:third_occurrence", "position occurred {} times at a start of turn after {} at {}", n, e.maction.text(), e.before.describe());
        st.bump(&format!("turn_end_occurrence_{}", n));
        if e.after_m.captures_total > 0 {
            st.bump("turn_end_after_some_capture");
        }
        // recurrence distance histogram
        if n == 2 {
            let l = &e.after_m.history.list;
            let last = l.len() - 1;
            if let Some(prev) = (0..last).rev().find(|&i| l[i] == l[last]) {
                let d = last - prev;
                let bucket = match d {
                    0..=2 => "2",
                    3..=4 => "3-4",
                    5..=8 => "5-8",
                    9..=16 => "9-16",
                    17..=64 => "17-64",
                    _ => "65+",
                };
                st.bump(&format!("recurrence_distance_turns_{}", bucket));
            }
        }
        Ok(())
    }
}

// =====================================================================================
// C06
// =====================================================================================
pub struct C06;

impl Obs for C06 {
    fn on_state(&mut self, v: &View, st: &mut Stats) -> Check {
        if v.m.setup {
            return Ok(());
        }
        let (va, vanr) = match (steer_ok(v.va(), st), steer_ok(v.vanr(), st)) {
            (Some(a), Some(b)) => (a, b),
            _ => return Ok(()),
        };
        st.eval();
        let mut want: Vec<Action> = vec![];
        let mut causes: Vec<(MAction, Withheld)> = vec![];
        for a in vanr.iter() {
            match v.m.withheld(to_maction(a)) {
                None => want.push(*a),
                Some(w) => causes.push((to_maction(a), w)),
            }
        }
        if *va != want {
            let gs = mset(va);
            let ws = mset(&want);
            let over: Vec<_> = ws.difference(&gs).collect(); // should be offered but withheld
            let under: Vec<_> = gs.difference(&ws).collect(); // should be withheld but offered
            let clause = if !over.is_empty() {
                if over.iter().any(|a| !v.m.ends_turn(**a)) { "C06:non_turn_ending_withheld" } else { "C06:over_blocked" }
            } else if !under.is_empty() {
                "C06:under_blocked"
            } else {
                "C06:order"
            };
            return Err(Fail::new(
                clause,
                format!(
                    "offered list [{}] differs from rule-only list [{}] minus the offending turn-ending actions [{}] at {} (history {} turn starts, {} captures so far): wrongly withheld [{}], wrongly offered [{}]",
                    actions_text(va), actions_text(vanr),
                    causes.iter().map(|(a, w)| format!("{}:{:?}", a.text(), w)).collect::<Vec<_>>().join(" "),
                    v.describe(), v.m.history.list.len(), v.m.captures_total,
                    mactions_text(over), mactions_text(under)
                ),
            ));
        }
        if !causes.is_empty() {
            st.nontrivial(fp_combine(v.m.fingerprint(), v.m.history.list.len() as u64));
            for (a, w) in causes.iter() {
                let what = if matches!(a, MAction::Pass) { "pass" } else { "fourth_step" };
                st.bump(&format!("withheld_{}_{:?}", what, w));
                if v.m.captures_total > 0 {
                    st.bump("withheld_after_a_capture_in_history");
                }
                if v.m.captured_this_turn {
                    st.bump("withheld_in_a_turn_with_capture");
                }
            }
            if matches!(v.m.status, Status::MustCompletePush { .. }) {
                st.bump("withheld_while_push_pending");
            }
        }
        // history that the engine has forgotten but the model remembers
        if v.m.captures_total > 0 && v.m.step == 3 {
            st.bump("step3_state_after_capture_in_history");
        }
        Ok(())
    }
}

// =====================================================================================
// C07
// =====================================================================================
pub struct C07;

impl Obs for C07 {
    fn on_state(&mut self, v: &View, st: &mut Stats) -> Check {
        let term = v.terminal().as_ref().map_err(|p| Fail::new("C07:panic", format!("is_terminal: {} at {}", p, v.describe())))?;
        let va = v.va().as_ref().map_err(|p| Fail::new("C07:panic", format!("valid_actions: {} at {}", p, v.describe())))?;
        let vanr = v.vanr().as_ref().map_err(|p| Fail::new("C07:panic", format!("valid_actions_no_rep: {} at {}", p, v.describe())))?;
        st.eval();
        if term.is_none() {
            ensure!(!va.is_empty(), "C07:stuck", "no result is reported but no action is offered at {}", v.describe());
        }
        let (cp_t, cp_f, hm) = guard(|| (v.eng.can_pass(true), v.eng.can_pass(false), v.eng.has_move(v.eng.piece_board()).is_none()))
            .map_err(|p| Fail::new("C07:panic", format!("{} at {}", p, v.describe())))?;
        ensure!(cp_t == va.contains(&Action::Pass), "C07:can_pass_rep", "can_pass(true)={} but pass in offered list={} at {}", cp_t, va.contains(&Action::Pass), v.describe());
        ensure!(cp_f == vanr.contains(&Action::Pass), "C07:can_pass_norep", "can_pass(false)={} but pass in rule-only list={} at {}", cp_f, vanr.contains(&Action::Pass), v.describe());
        ensure!(hm == !va.is_empty(), "C07:has_move", "has_move says {} but the offered list has {} actions at {}", hm, va.len(), v.describe());
        if !v.m.setup && v.m.step > 0 {
            ensure!(term.is_some() == va.is_empty(), "C07:mid_turn_result", "mid-turn result {:?} but offered list has {} actions at {}", term, va.len(), v.describe());
            if let Some(w) = term {
                let loss = if v.m.gold_to_move { m::Winner::Silver } else { m::Winner::Gold };
                ensure!(*w == loss, "C07:mid_turn_winner", "mid-turn result {:?} is not a loss for the player on move at {}", w, v.describe());
            }
        }
        // ---- statistics
        if v.m.setup {
            if va.len() <= 2 {
                st.bump("setup_state_with_le2_types_left");
                st.nontrivial(fp_combine(v.m.board.fingerprint(), 5));
            }
        } else {
            if va.len() != vanr.len() {
                st.bump("state_where_rep_rules_withhold");
                st.nontrivial(fp_combine(v.m.fingerprint(), v.m.history.list.len() as u64));
            }
            if va.is_empty() {
                st.bump(&format!("state_with_empty_offered_list_step{}", v.m.step));
                if !vanr.is_empty() {
                    st.bump("state_where_everything_left_is_withheld");
                }
                st.nontrivial(fp_combine(v.m.fingerprint(), 9));
            }
        }
        Ok(())
    }
}

// =====================================================================================
// C08
// =====================================================================================
pub fn piece_board_of(b: &Board) -> PieceBoard {
    let mut p1 = 0u64;
    let mut t = [0u64; 7];
    for i in 0..64u8 {
        let c = b.at(i);
        if c != m::EMPTY {
            t[m::kind(c) as usize] |= 1u64 << i;
            if m::is_gold(c) {
                p1 |= 1u64 << i;
            }
        }
    }
    PieceBoard::new(p1, t[m::E as usize], t[m::M as usize], t[m::H as usize], t[m::D as usize], t[m::C as usize], t[m::R as usize])
}

#[derive(Default)]
pub struct C08 {
    table: HashMap<(Board, bool, usize), (GameState, usize)>,
    states: usize,
    turn_just_changed: bool,
}

fn std_hash(g: &GameState) -> u64 {
    let mut h = DefaultHasher::new();
    g.hash(&mut h);
    h.finish()
}

impl Obs for C08 {
    fn on_state(&mut self, v: &View, st: &mut Stats) -> Check {
        self.states += 1;
        if v.m.setup {
            return Ok(());
        }
        st.eval();
        let eng = v.eng;
        let mo = v.m;
        let r = guard(|| {
            let pp = eng.unwrap_play_phase();
            let status = pp.push_pull_state();
            let scratch = Zobrist::from_piece_board(eng.piece_board(), eng.is_p1_turn_to_move(), eng.current_step());
            let want = scratch.board_state_hash_with_push_pull_state(status);
            let got = eng.transposition_hash();
            let hist: Vec<u64> = pp.hash_history().iter().map(|z| z.board_state_hash()).collect();
            (got, want, hist)
        });
        let (got, want, hist) = r.map_err(|p| Fail::new("C08:panic", format!("{} at {}", p, v.describe())))?;
        // the recorded hashes are the same through every accessor of the list
        let views = guard(|| {
            let l = eng.unwrap_play_phase().hash_history();
            let head = l.head().map(|z| z.board_state_hash());
            let tail: Vec<u64> = l.tail().iter().map(|z| z.board_state_hash()).collect();
            (l.len(), l.is_empty(), head, tail, l.tail().len())
        })
        .map_err(|p| Fail::new("C08:panic", format!("{} at {}", p, v.describe())))?;
        ensure!(
            views.0 == hist.len() && views.1 == hist.is_empty() && views.2 == hist.first().copied() && views.3[..] == hist[hist.len().min(1)..] && views.4 == hist.len().saturating_sub(1),
            "C08:history_views",
            "the recorded start-of-turn hashes differ between iter() ({} entries) and len() = {} / is_empty() = {} / head() / tail() ({} entries) at {}",
            hist.len(), views.0, views.1, views.3.len(), v.describe()
        );
        ensure!(got == want, "C08:incremental_vs_scratch", "transposition hash {:#018x} differs from the from-scratch hash {:#018x} at {} (captures so far {}, turns {})", got, want, v.describe(), mo.captures_total, mo.turns_completed);
        // recorded start-of-turn hashes (most recent first) vs from-scratch hashes of the model's
        // start-of-turn positions; the engine may have forgotten older entries, never invented any
        let l = &mo.history.list;
        ensure!(hist.len() <= l.len(), "C08:history_length", "engine records {} start-of-turn hashes, only {} turn starts happened at {}", hist.len(), l.len(), v.describe());
        for (j, h) in hist.iter().enumerate() {
            let (b, g) = &l[l.len() - 1 - j];
            let pbd = piece_board_of(b);
            let z = guard(|| Zobrist::from_piece_board(pbd.piece_board(), *g, 0).board_state_hash()).map_err(|p| Fail::new("C08:panic", p))?;
            ensure!(*h == z, "C08:history_entry", "recorded start-of-turn hash #{} (most recent first) {:#018x} is not the from-scratch hash {:#018x} of that position ({} {} to move) at {}", j, h, z, board_text(b), if *g { "gold" } else { "silver" }, v.describe());
            if j >= 6 {
                break; // older entries were checked when they were recent
            }
        }
        // start-of-turn: hashes like the same position parsed from text
        // (the parser compiles a regex per call, so this is by far the most expensive clause: evaluated at
        // the first three turn starts - which include the end of a setup - and at every fourth one after)
        if mo.step == 0 && !v.in_tree && (mo.turns_completed < 3 || mo.turns_completed % 4 == 0) {
            let text = mo.board.diagram(mo.move_number, mo.gold_to_move);
            if let Ok(Ok(p)) = guard(|| text.parse::<GameState>()) {
                let ph = guard(|| p.transposition_hash()).map_err(|p| Fail::new("C08:panic", p))?;
                ensure!(ph == got, "C08:parsed_position_hash", "hash {:#018x} differs from the hash {:#018x} of the same position parsed from text at {}", got, ph, v.describe());
                if mo.turns_completed == 0 && self.states > 1 {
                    st.bump("finished_setup_compared_with_parsed");
                }
            }
        }
        // same board, side, step => equal and hash-equal
        let key = (mo.board, mo.gold_to_move, mo.step);
        if let Some((other, at)) = self.table.get(&key) {
            let eq = guard(|| (*other == *eng, std_hash(other) == std_hash(eng))).map_err(|p| Fail::new("C08:panic", p))?;
            ensure!(eq.0, "C08:eq", "two states with the same board, side and step compare unequal at {} (first seen at state #{})", v.describe(), at);
            ensure!(eq.1, "C08:std_hash", "two states with the same board, side and step have different std::hash values at {}", v.describe());
            st.bump("revisit_same_board_side_step");
            st.nontrivial(fp_combine(mo.fingerprint(), self.states as u64));
        } else if self.table.len() < 4096 {
            self.table.insert(key, (eng.clone(), self.states));
        }
        if mo.captures_total > 0 {
            st.bump("state_after_capture");
            st.nontrivial(fp_combine(mo.fingerprint(), mo.captures_total as u64));
        } else if self.turn_just_changed {
            st.nontrivial(fp_combine(mo.fingerprint(), 3));
        }
        self.turn_just_changed = false;
        Ok(())
    }
    fn on_edge(&mut self, e: &Edge, st: &mut Stats) -> Check {
        for &(t, tc) in e.removed.iter() {
            st.bump(&format!("capture_{}_{}", if m::is_gold(tc) { "gold" } else { "silver" }, m::sq_name(t)));
        }
        if !e.before.m.setup && e.before.m.ends_turn(e.maction) {
            st.bump(if matches!(e.maction, MAction::Pass) { "turn_change_by_pass" } else { "turn_change_by_fourth_step" });
            self.turn_just_changed = true;
        }
        Ok(())
    }
}

// =====================================================================================
// C09
// =====================================================================================
pub struct C09;

impl Obs for C09 {
    fn on_state(&mut self, v: &View, st: &mut Stats) -> Check {
        if !v.m.setup {
            return Ok(());
        }
        st.eval();
        let va = v.va().as_ref().map_err(|p| Fail::new("C09:panic", format!("{} at {}", p, v.describe())))?;
        ensure!(!has_dup(va), "C09:duplicate", "a placement is offered twice at {}: {}", v.describe(), actions_text(va));
        let got = mset(va);
        let want = v.m.offered_norep();
        ensure!(got == want, "C09:offered_types", "offered placements [{}] but the types below their complement are [{}] at {}", actions_text(va), mactions_text(want.iter()), v.describe());
        let (play, side) = guard(|| (v.eng.is_play_phase(), v.eng.is_p1_turn_to_move())).map_err(|p| Fail::new("C09:panic", p))?;
        ensure!(!play, "C09:phase", "play phase reported during setup at {}", v.describe());
        ensure!(side == v.m.gold_to_move, "C09:side", "side to move is {} at {}", if side { "gold" } else { "silver" }, v.describe());
        // the square announced for the next placement is the next free home square of the mover, and the
        // state does not pose as a play-phase state through any accessor
        let (pbit, app) = guard(|| (v.eng.piece_board().placement_bit(), v.eng.as_play_phase().is_some())).map_err(|p| Fail::new("C09:panic", format!("{} at {}", p, v.describe())))?;
        let next_sq = m::setup_square(v.m.gold_to_move, v.m.placed_by_mover());
        ensure!(pbit == 1u64 << next_sq, "C09:placement_bit", "placement_bit() is {:#x}, but the next free home square of the mover is {} at {}", pbit, m::sq_name(next_sq), v.describe());
        ensure!(!app, "C09:phase", "as_play_phase() returns a play phase during setup at {}", v.describe());
        if want.len() < 6 {
            st.bump("prefix_with_exhausted_type");
            st.nontrivial(v.m.board.fingerprint());
        }
        Ok(())
    }
    fn on_edge(&mut self, e: &Edge, st: &mut Stats) -> Check {
        if !e.before.m.setup {
            return Ok(());
        }
        st.eval();
        let after = read_board(e.after_eng.piece_board()).map_err(|s| Fail::new("C09:board_inconsistent", format!("{} after {} at {}", s, e.maction.text(), e.before.describe())))?;
        if after != e.after_m.board {
            let diff: Vec<String> = (0..64u8)
                .filter(|&i| after.at(i) != e.after_m.board.at(i))
                .map(|i| format!("{}: expected '{}' got '{}'", m::sq_name(i), m::code_letter(e.after_m.board.at(i)), m::code_letter(after.at(i))))
                .collect();
            return Err(Fail::new("C09:placement_board", format!("after placing {} at {}: {}", e.maction.text(), e.before.describe(), diff.join("; "))));
        }
        let a = e.after_eng;
        let (play, side, mn) = guard(|| (a.is_play_phase(), a.is_p1_turn_to_move(), a.move_number())).map_err(|p| Fail::new("C09:panic", p))?;
        ensure!(play == !e.after_m.setup, "C09:phase_switch", "play phase={} after {} placements by the mover at {}", play, e.before.m.placed_by_mover() + 1, e.before.describe());
        ensure!(side == e.after_m.gold_to_move, "C09:side_switch", "side to move {} after placing {} at {}", if side { "gold" } else { "silver" }, e.maction.text(), e.before.describe());
        if play {
            let (step, pp) = guard(|| (a.current_step(), a.unwrap_play_phase().push_pull_state())).map_err(|p| Fail::new("C09:panic", p))?;
            ensure!(side && mn == 2 && step == 0 && pp == PushPullState::None, "C09:play_start", "play starts with gold to move={}, move number {}, step {}, pending {:?}", side, mn, step, pp);
            st.bump("setup_completed");
        }
        Ok(())
    }
}

// =====================================================================================
// C10
// =====================================================================================
pub struct C10 {
    any_action_applied: bool,
    just_captured: bool,
}
impl C10 {
    pub fn new() -> C10 {
        C10 { any_action_applied: false, just_captured: false }
    }
}

/// Reads the printed diagram independently of the engine's parser.
pub fn read_diagram(text: &str) -> Result<(usize, bool, Board), String> {
    let lines: Vec<&str> = text.lines().collect();
    if lines.len() != 12 {
        return Err(format!("diagram has {} lines", lines.len()));
    }
    let head = lines[0];
    let (num, side) = head.split_at(head.len().saturating_sub(1));
    let mn: usize = num.parse().map_err(|_| format!("bad header {:?}", head))?;
    let gold = match side {
        "g" => true,
        "s" => false,
        _ => return Err(format!("bad header {:?}", head)),
    };
    if lines[1] != " +-----------------+" || lines[10] != " +-----------------+" || lines[11] != "   a b c d e f g h" {
        return Err("frame lines differ".into());
    }
    let mut b = Board::empty();
    for row in 0..8usize {
        let l: Vec<char> = lines[2 + row].chars().collect();
        if l.len() != 20 || l[0] != (b'8' - row as u8) as char || l[1] != '|' || l[18] != ' ' || l[19] != '|' {
            return Err(format!("bad row line {:?}", lines[2 + row]));
        }
        for f in 0..8usize {
            if l[2 + 2 * f] != ' ' {
                return Err(format!("bad spacing in {:?}", lines[2 + row]));
            }
            let ch = l[3 + 2 * f];
            let sq = (row * 8 + f) as u8;
            let k = match ch.to_ascii_lowercase() {
                'r' => m::R,
                'c' => m::C,
                'd' => m::D,
                'h' => m::H,
                'm' => m::M,
                'e' => m::E,
                ' ' => {
                    if m::is_trap(sq) {
                        return Err(format!("trap {} printed as blank", m::sq_name(sq)));
                    }
                    continue;
                }
                'x' => {
                    if !m::is_trap(sq) {
                        return Err(format!("x printed on non-trap {}", m::sq_name(sq)));
                    }
                    continue;
                }
                _ => return Err(format!("bad cell {:?}", ch)),
            };
            b.0[sq as usize] = m::mk(ch.is_ascii_uppercase(), k);
        }
    }
    Ok((mn, gold, b))
}

pub fn c10_views(pb: &PieceBoardState, want: &Board, ctx: &str) -> Check {
    let types = [pb.rabbits, pb.cats, pb.dogs, pb.horses, pb.camels, pb.elephants];
    let mut union = 0u64;
    for i in 0..6 {
        for j in (i + 1)..6 {
            ensure!(types[i] & types[j] == 0, "C10:type_boards_overlap", "type boards overlap at {}", ctx);
        }
        union |= types[i];
    }
    ensure!(union == pb.all_pieces, "C10:all_pieces", "all_pieces {:#x} is not the union of the type boards {:#x} at {}", pb.all_pieces, union, ctx);
    ensure!(pb.p1_pieces & !pb.all_pieces == 0, "C10:p1_subset", "p1_pieces has bits outside all_pieces at {}", ctx);
    let got = read_board(pb).map_err(|s| Fail::new("C10:raw_boards", format!("{} at {}", s, ctx)))?;
    ensure!(got == *want, "C10:raw_boards", "raw bitboards describe [{}], expected [{}] at {}", board_text(&got), board_text(want), ctx);
    // accessors, square by square, under the index convention
    let mut gold_mask = 0u64;
    let mut silver_mask = 0u64;
    for i in 0..64u8 {
        let c = want.at(i);
        let bit = 1u64 << i;
        if c != m::EMPTY {
            if m::is_gold(c) {
                gold_mask |= bit
            } else {
                silver_mask |= bit
            }
        }
        let sq = Square::from_index(i);
        let at = guard(|| pb.piece_type_at_square(&sq)).map_err(|p| Fail::new("C10:panic", p))?;
        let want_at = if c == m::EMPTY { None } else { Some(kind_to_piece(m::kind(c))) };
        ensure!(at == want_at, "C10:square_lookup", "piece_type_at_square({}) = {:?}, expected {:?} at {}", m::sq_name(i), at, want_at, ctx);
    }
    let (pm_g, pm_s) = guard(|| (pb.player_piece_mask(true), pb.player_piece_mask(false))).map_err(|p| Fail::new("C10:panic", p))?;
    ensure!(pm_g == gold_mask && pm_s == silver_mask, "C10:player_mask", "player_piece_mask gold {:#x}/{:#x} silver {:#x}/{:#x} at {}", pm_g, gold_mask, pm_s, silver_mask, ctx);
    for p in ENGINE_PIECES.iter() {
        let k = piece_to_kind(*p);
        for gold in [true, false] {
            let mut w = 0u64;
            for i in 0..64u8 {
                if want.at(i) == m::mk(gold, k) {
                    w |= 1u64 << i;
                }
            }
            let g = guard(|| pb.bits_for_piece(*p, gold)).map_err(|p| Fail::new("C10:panic", p))?;
            ensure!(g == w, "C10:bits_for_piece", "bits_for_piece({:?},{}) = {:#x}, expected {:#x} at {}", p, gold, g, w, ctx);
        }
        let mut w = 0u64;
        for i in 0..64u8 {
            if want.at(i) != m::EMPTY && m::kind(want.at(i)) == k {
                w |= 1u64 << i;
            }
        }
        let g = guard(|| pb.bits_by_piece_type(*p)).map_err(|p| Fail::new("C10:panic", p))?;
        ensure!(g == w, "C10:bits_by_piece_type", "bits_by_piece_type({:?}) = {:#x}, expected {:#x} at {}", p, g, w, ctx);
    }
    Ok(())
}

impl Obs for C10 {
    fn on_state(&mut self, v: &View, st: &mut Stats) -> Check {
        st.eval();
        let ctx = v.describe();
        c10_views(v.eng.piece_board(), &v.m.board, &ctx)?;
        // printed diagram, read by an independent reader
        let text = guard(|| v.eng.to_string()).map_err(|p| Fail::new("C10:panic", format!("printing: {} at {}", p, ctx)))?;
        let (_, _, pb) = read_diagram(&text).map_err(|s| Fail::new("C10:diagram", format!("{} in\n{}\nat {}", s, text, ctx)))?;
        ensure!(pb == v.m.board, "C10:diagram", "printed diagram shows [{}], expected [{}] at {}", board_text(&pb), board_text(&v.m.board), ctx);
        ensure!(v.m.board.within_complement(), "C10:complement", "a side exceeds its complement at {}", ctx);
        if self.any_action_applied {
            ensure!(v.m.board.traps_legal(), "C10:unsupported_on_trap", "a piece stands on a trap without an adjacent friendly piece at {}", ctx);
        }
        let kinds: BTreeSet<u8> = v.m.board.0.iter().filter(|&&c| c != m::EMPTY).map(|&c| m::kind(c)).collect();
        if (v.m.board.piece_count() >= 8 && kinds.len() >= 4) || self.just_captured {
            st.bump(if self.just_captured { "state_just_after_capture" } else { "state_ge8_pieces_ge4_kinds" });
            st.nontrivial(v.m.board.fingerprint());
        }
        self.just_captured = false;
        if v.m.setup {
            st.bump("setup_state");
        }
        Ok(())
    }
    fn on_edge(&mut self, e: &Edge, st: &mut Stats) -> Check {
        self.any_action_applied = true;
        // (in a turn tree the next observed state is the child of this edge, on the main line it is the
        // next state: either way the state right after the capture)
        self.just_captured = !e.removed.is_empty();
        let _ = st;
        Ok(())
    }
}

// =====================================================================================
// C12
// =====================================================================================
pub struct C12;

impl Obs for C12 {
    fn on_state(&mut self, v: &View, st: &mut Stats) -> Check {
        if v.m.setup {
            return Ok(());
        }
        st.eval();
        let got = guard(|| status_of(v.eng.unwrap_play_phase().push_pull_state())).map_err(|p| Fail::new("C12:panic", format!("{} at {}", p, v.describe())))?;
        ensure!(got == v.m.status, "C12:status", "reported status {:?} but the previous step implies {:?} at {}", got, v.m.status, v.describe());
        // the same status through its other accessor
        let ap = guard(|| v.eng.unwrap_play_phase().push_pull_state().as_possible_pull().map(|(q, p)| (q.index() as u8, piece_to_kind(p)))).map_err(|p| Fail::new("C12:panic", format!("{} at {}", p, v.describe())))?;
        let want_ap = if let Status::PossiblePull { sq, kind } = v.m.status { Some((sq, kind)) } else { None };
        ensure!(ap == want_ap, "C12:status", "as_possible_pull() gives {:?} but the previous step implies {:?} at {}", ap, v.m.status, v.describe());
        if let Status::MustCompletePush { sq, kind } = v.m.status {
            let vanr = match steer_ok(v.vanr(), st) {
                Some(l) => l,
                None => return Ok(()),
            };
            // steps of unfrozen, strictly stronger friendly pieces into the vacated square
            let b = &v.m.board;
            let mut want = BTreeSet::new();
            for d in 0..4u8 {
                if let Some(n) = m::neighbour(sq, d) {
                    let c = b.at(n);
                    if c != m::EMPTY && m::is_gold(c) == v.m.gold_to_move && m::kind(c) > kind && !b.is_frozen(n) {
                        want.insert(MAction::Step { from: n, dir: m::opposite(d) });
                    }
                }
            }
            let gotl = mset(vanr);
            ensure!(gotl == want, "C12:push_completions", "while a push into {} is pending the rule-only list is [{}], expected [{}] at {}", m::sq_name(sq), actions_text(vanr), mactions_text(want.iter()), v.describe());
            ensure!(!want.is_empty(), "C12:push_without_completion", "push pending but nothing can complete it at {}", v.describe());
            st.bump(&format!("push_pending_step{}", v.m.step));
        }
        if got != Status::None {
            guard(|| v.eng.transposition_hash()).map_err(|p| Fail::new("C12:hash_panics", format!("{} at {}", p, v.describe())))?;
            st.nontrivial(v.m.fingerprint());
            if let Status::PossiblePull { .. } = got {
                st.bump(&format!("possible_pull_step{}", v.m.step));
            }
        }
        Ok(())
    }
    fn on_edge(&mut self, e: &Edge, st: &mut Stats) -> Check {
        let bm = e.before.m;
        if bm.setup {
            return Ok(());
        }
        if let MAction::Step { from, .. } = e.maction {
            let enemy = m::is_gold(bm.board.at(from)) != bm.gold_to_move;
            if bm.step < 3 {
                match (enemy, bm.status, e.after_m.status) {
                    (true, Status::PossiblePull { .. }, Status::None) => st.bump("pull_completed"),
                    (true, _, Status::MustCompletePush { .. }) => {
                        st.bump("push_started");
                        if matches!(bm.status, Status::PossiblePull { .. }) {
                            st.bump("push_started_while_pull_possible");
                        }
                    }
                    (false, Status::MustCompletePush { .. }, Status::None) => st.bump("push_completed"),
                    (false, _, Status::None) => st.bump("rabbit_step"),
                    _ => {}
                }
                // displacement that could be either (pull completion and push start)
                if enemy && bm.parse.len() >= 1 && e.after_m.parse.len() > 1 {
                    st.bump("displacement_that_could_be_either");
                }
            }
        }
        Ok(())
    }
}

// =====================================================================================
// C13
// =====================================================================================
pub struct C13;

impl Obs for C13 {
    fn on_state(&mut self, v: &View, st: &mut Stats) -> Check {
        let va = match steer_ok(v.va(), st) {
            Some(l) => l.clone(),
            None => return Ok(()),
        };
        // the property quantifies over *offered* actions only
        let all = va;
        for a in all.iter() {
            st.eval();
            let ma = to_maction(a);
            let got = guard(|| v.eng.trapped_animal_for_action(a)).map_err(|p| Fail::new("C13:panic", format!("preview of {} panicked: {} at {}", ma.text(), p, v.describe())))?;
            let got = got.map(|(sq, p, g)| (sq.index() as u8, m::mk(g, piece_to_kind(p))));
            // what applying the action removes: difference of the engine's own boards
            let after = guard(|| v.eng.take_action(a));
            let after = match after {
                Ok(s) => s,
                Err(_) => {
                    st.bump("oracle_skipped_engine_panic_in_take_action");
                    continue;
                }
            };
            let removed_engine: Vec<(u8, u8)> = match (ma, read_board(after.piece_board())) {
                (MAction::Step { from, dir }, Ok(ab)) => {
                    let to = m::neighbour(from, dir).unwrap_or(from);
                    let mut mv = v.m.board;
                    if to != from {
                        mv.0[to as usize] = mv.0[from as usize];
                        mv.0[from as usize] = m::EMPTY;
                    }
                    (0..64u8).filter(|&i| mv.at(i) != m::EMPTY && ab.at(i) == m::EMPTY).map(|i| (i, mv.at(i))).collect()
                }
                (_, Ok(ab)) => (0..64u8).filter(|&i| v.m.board.at(i) != m::EMPTY && ab.at(i) == m::EMPTY).map(|i| (i, v.m.board.at(i))).collect(),
                (_, Err(_)) => {
                    st.bump("oracle_skipped_inconsistent_board");
                    continue;
                }
            };
            let removed_model = v.m.result_board(ma).map(|x| x.1).unwrap_or_default();
            ensure!(removed_engine.len() <= 1, "C13:double_removal", "applying {} removes {} pieces at {}", ma.text(), removed_engine.len(), v.describe());
            let fmt = |x: &Option<(u8, u8)>| match x {
                None => "nothing".to_string(),
                Some((s, c)) => format!("{}{}", m::code_letter(*c), m::sq_name(*s)),
            };
            let want = removed_engine.first().copied();
            ensure!(got == want, "C13:preview", "preview of {} says {} but applying it removes {} at {}", ma.text(), fmt(&got), fmt(&want), v.describe());
            if !matches!(ma, MAction::Place(_)) && !v.m.setup {
                ensure!(removed_model == removed_engine, "C13:model_cross_check", "applying {} removes {:?} in the engine, {:?} by the rules at {}", ma.text(), removed_engine, removed_model, v.describe());
            }
            if let Some((t, tc)) = want {
                let cause = match ma {
                    MAction::Step { from, dir } if m::neighbour(from, dir) == Some(t) => "stepped_in",
                    _ => "supporter_left",
                };
                st.bump(&format!("preview_{}_{}_{}", if m::is_gold(tc) { "gold" } else { "silver" }, m::sq_name(t), cause));
                st.nontrivial(fp_combine(v.m.board.fingerprint(), fp_str(&ma.text())));
            }
        }
        Ok(())
    }
}

// =====================================================================================
// C14
// =====================================================================================
#[derive(Default)]
pub struct C14 {
    /// a long-lived scratch state that every observed state is copied into with clone_from (the idiom
    /// of a search that reuses one allocation); it previously held another state, often of the same turn
    scratch: Option<GameState>,
}

impl Obs for C14 {
    fn on_state(&mut self, v: &View, st: &mut Stats) -> Check {
        if v.m.setup {
            return Ok(());
        }
        st.eval();
        let k = v.m.step;
        let n = guard(|| v.eng.unwrap_play_phase().previous_piece_boards().len()).map_err(|p| Fail::new("C14:panic", p))?;
        ensure!(n == k, "C14:record_length", "{} earlier boards recorded after {} steps at {}", n, k, v.describe());
        for i in 0..=k {
            let got = guard(|| {
                let pb = v.eng.piece_board_for_step(i);
                (read_board(pb), pb.clone())
            })
            .map_err(|p| Fail::new("C14:panic", format!("piece_board_for_step({}) panicked: {} at {}", i, p, v.describe())))?;
            let gb = got.0.map_err(|s| Fail::new("C14:board_inconsistent", format!("step {}: {} at {}", i, s, v.describe())))?;
            ensure!(gb == v.m.turn_boards[i], "C14:board_for_step", "board for step {} is [{}], but after {} steps of this turn it was [{}] at {}", i, board_text(&gb), i, board_text(&v.m.turn_boards[i]), v.describe());
            // all eight fields
            c10_views(&got.1, &v.m.turn_boards[i], &format!("piece_board_for_step({}) at {}", i, v.describe())).map_err(|f| Fail::new("C14:board_fields", f.detail))?;
        }
        // the same boards must be reported by a copy made with clone_from into a reused state
        {
            let mut sc = match self.scratch.take() {
                Some(s) => s,
                None => v.eng.clone(),
            };
            guard(|| sc.clone_from(v.eng)).map_err(|p| Fail::new("C14:panic", format!("clone_from panicked: {} at {}", p, v.describe())))?;
            for i in 0..=k {
                let gb = guard(|| read_board(sc.piece_board_for_step(i))).map_err(|p| Fail::new("C14:panic", format!("piece_board_for_step({}) on a clone_from copy panicked: {} at {}", i, p, v.describe())))?;
                let gb = gb.map_err(|e| Fail::new("C14:board_inconsistent", e))?;
                ensure!(gb == v.m.turn_boards[i], "C14:board_for_step_after_clone_from", "a copy made with clone_from into a reused state reports [{}] for step {}, but after {} steps of this turn the board was [{}] at {}", board_text(&gb), i, i, board_text(&v.m.turn_boards[i]), v.describe());
            }
            self.scratch = Some(sc);
            st.bump("clone_from_copies_checked");
        }
        st.bump(&format!("state_step{}", k));
        if k >= 2 {
            let tb = &v.m.turn_boards;
            let mut distinct = true;
            for i in 0..tb.len() {
                for j in (i + 1)..tb.len() {
                    if tb[i] == tb[j] {
                        distinct = false;
                    }
                }
            }
            if distinct {
                st.nontrivial(fp_combine(tb[0].fingerprint(), fp_combine(tb[k].fingerprint(), tb[1].fingerprint())));
            } else {
                st.bump("state_with_repeated_board_inside_turn");
            }
        }
        Ok(())
    }
}

// =====================================================================================
// C15 (round-trip part; the text part is driven from textprops.rs)
// =====================================================================================
pub struct C15;

impl Obs for C15 {
    fn on_state(&mut self, v: &View, st: &mut Stats) -> Check {
        st.eval();
        let s = v.eng;
        // a sink that fails part-way (a bounded buffer, a closed pipe) must not influence later printing
        {
            struct Bounded(usize);
            impl std::fmt::Write for Bounded {
                fn write_str(&mut self, x: &str) -> std::fmt::Result {
                    if x.len() > self.0 {
                        self.0 = 0;
                        Err(std::fmt::Error)
                    } else {
                        self.0 -= x.len();
                        Ok(())
                    }
                }
            }
            use std::fmt::Write as _;
            let limit = (v.m.board.fingerprint() % 260) as usize;
            let _ = guard(|| {
                let mut w = Bounded(limit);
                let _ = write!(w, "{}", s);
            });
            // ... and into a sink that panics part-way (println! on a closed stdout does), the panic being
            // contained by the caller
            if limit % 3 == 0 {
                let _ = guard(|| {
                    let mut w = crate::textprops::PanickingSink(limit / 2);
                    let _ = write!(w, "{}", s);
                });
            }
        }
        let printed = guard(|| s.to_string()).map_err(|p| Fail::new("C15:print_panic", format!("{} at {}", p, v.describe())))?;
        let parsed = guard(|| printed.parse::<GameState>()).map_err(|p| Fail::new("C15:parse_panic", format!("{} on printed form of {}", p, v.describe())))?;
        let p = parsed.map_err(|e| Fail::new("C15:printed_form_rejected", format!("parser rejects the printed form ({}) of {}:\n{}", e, v.describe(), printed)))?;
        let r = guard(|| {
            let step = p.current_step();
            let b = read_board(p.piece_board());
            (p.is_play_phase(), step, b, p.is_p1_turn_to_move(), p.move_number(), p.to_string(), p.transposition_hash())
        })
        .map_err(|pn| Fail::new("C15:panic_on_parsed", format!("{} at {}", pn, v.describe())))?;
        let (play, step, b, side, mn, reprint, phash) = r;
        ensure!(play && step == 0, "C15:not_start_of_turn", "parsed state is not a start-of-turn state (step {}) for {}", step, v.describe());
        let b = b.map_err(|e| Fail::new("C15:board", e))?;
        let sb = read_board(s.piece_board()).map_err(|e| Fail::new("C15:board", e))?;
        ensure!(b == sb, "C15:board", "parsed board [{}] differs from [{}] at {}", board_text(&b), board_text(&sb), v.describe());
        ensure!(side == s.is_p1_turn_to_move(), "C15:side", "parsed side to move differs at {}", v.describe());
        ensure!(mn == s.move_number(), "C15:move_number", "parsed move number {} differs from {} at {}", mn, s.move_number(), v.describe());
        ensure!(reprint == printed, "C15:reprint", "printed form of the parsed state differs at {}:\n{}\nvs\n{}", v.describe(), reprint, printed);
        // printing under formatter flags (width, alignment, fill, sign, alternate, zero): the text is the
        // plain diagram (possibly padded as a whole), or at least parses back to the same position
        if v.m.board.fingerprint() % 4 == (mn as u64) % 4 {
            let outs = guard(|| crate::textprops::flagged_outputs(s, &[1, 24, 300])).map_err(|p| Fail::new("C15:print_panic", format!("{} under formatter flags at {}", p, v.describe())))?;
            for (spec, out, fills) in outs {
                if crate::textprops::is_padded_whole(&out, &printed, fills) {
                    continue;
                }
                st.bump("flagged_print_differs");
                let q = guard(|| out.parse::<GameState>()).map_err(|p| Fail::new("C15:parse_panic", format!("{} on {:?}", p, out)))?;
                let same = match q {
                    Ok(q) => guard(|| read_board(q.piece_board()).ok() == Some(sb.clone()) && q.is_p1_turn_to_move() == side && q.move_number() == mn && q.to_string() == printed).unwrap_or(false),
                    Err(_) => false,
                };
                ensure!(same, "C15:flagged_print", "printed with {} the state {} gives a text that is neither the plain diagram (padded as a whole) nor parses back to the same position:\n{}", spec, v.describe(), out);
            }
            st.bump("flagged_prints_checked");
        }
        if !v.m.setup && v.m.step == 0 {
            let h = guard(|| s.transposition_hash()).map_err(|p| Fail::new("C15:panic", p))?;
            ensure!(h == phash, "C15:hash", "transposition hash {:#018x} of the parsed state differs from {:#018x} at {}", phash, h, v.describe());
            st.bump("start_of_turn_hash_compared");
        }
        let kinds: BTreeSet<u8> = sb.0.iter().filter(|&&c| c != m::EMPTY).collect::<BTreeSet<_>>().into_iter().copied().collect();
        if kinds.len() >= 2 || !side || mn >= 10 {
            st.nontrivial(fp_combine(sb.fingerprint(), fp_combine(mn as u64, side as u64)));
        }
        if v.m.setup {
            st.bump("setup_state_round_trip");
        } else if v.m.step > 0 {
            st.bump("mid_turn_state_round_trip");
        }
        Ok(())
    }
}

// =====================================================================================
// C17 along games: the single-feature neighbours of *reached* states, built with the public
// constructors around the state's own per-turn record, history and capture flag
// =====================================================================================
pub struct C17;

impl Obs for C17 {
    fn on_state(&mut self, v: &View, st: &mut Stats) -> Check {
        if v.m.setup {
            return Ok(());
        }
        // every state with a capture this turn or something pending, one in four of the others
        let interesting = v.m.captured_this_turn || v.m.status != Status::None;
        if !interesting && v.m.board.fingerprint() % 4 != (v.m.step as u64) % 4 {
            return Ok(());
        }
        let eng = v.eng;
        let statuses = crate::special::all_statuses();
        let r = guard(|| {
            use arimaa_engine_step::{Phase, PlayPhase};
            let pp = eng.unwrap_play_phase();
            let side = eng.is_p1_turn_to_move();
            let step = eng.current_step();
            let prev: Vec<PieceBoard> = pp.previous_piece_boards().to_vec();
            let start_board = if step == 0 || prev.is_empty() { eng.piece_board() } else { prev[0].piece_board() };
            let init = Zobrist::from_piece_board(start_board, side, 0);
            let own = pp.push_pull_state();
            let trapped = pp.piece_trapped_this_turn();
            let mn = eng.move_number();
            let twin = |status: PushPullState, side2: bool, b: &Board| -> u64 {
                let pb = piece_board_of(b);
                let h = Zobrist::from_piece_board(pb.piece_board(), side2, step);
                let phase = Phase::PlayPhase(PlayPhase::new(init, pp.hash_history().clone(), prev.clone(), status, trapped));
                GameState::new(side2, mn, phase, pb, h).transposition_hash()
            };
            let base = twin(own, side, &v.m.board);
            let by_status: Vec<u64> = statuses.iter().map(|s| twin(*s, side, &v.m.board)).collect();
            let other_side = twin(own, !side, &v.m.board);
            // the content of a few squares (those the last step touched first)
            let mut squares: Vec<u8> = vec![];
            match v.m.status {
                Status::PossiblePull { sq, .. } | Status::MustCompletePush { sq, .. } => squares.push(sq),
                Status::None => {}
            }
            let f = v.m.board.fingerprint();
            for k in 0..3u64 {
                let q = ((f >> (8 * k)) % 64) as u8;
                if !squares.contains(&q) {
                    squares.push(q);
                }
            }
            let mut by_content: Vec<(u8, Vec<u64>)> = vec![];
            for &q in squares.iter() {
                let mut hs = vec![];
                for c in 0..13u8 {
                    let code = if c == 0 { m::EMPTY } else if c <= 6 { m::mk(true, c) } else { m::mk(false, c - 6) };
                    let mut b = v.m.board;
                    b.0[q as usize] = code;
                    hs.push(twin(own, side, &b));
                }
                by_content.push((q, hs));
            }
            // the step number: the same board reached with one, two or three steps of this turn (the record
            // of earlier boards padded with the current board, as when the piece took a longer way)
            let mut by_step: Vec<u64> = vec![];
            if step >= 1 {
                for s2 in 1..=3usize {
                    let mut pv: Vec<PieceBoard> = prev.clone();
                    let cur = piece_board_of(&v.m.board);
                    while pv.len() < s2 {
                        pv.push(cur.clone());
                    }
                    pv.truncate(s2);
                    let pb = piece_board_of(&v.m.board);
                    let h = Zobrist::from_piece_board(pb.piece_board(), side, s2);
                    let phase = Phase::PlayPhase(PlayPhase::new(init, pp.hash_history().clone(), pv, own, trapped));
                    by_step.push(GameState::new(side, mn, phase, pb, h).transposition_hash());
                }
            }
            // the same neighbours once more, this time around a *clone of the state's own play phase*
            // (taken after the state has been asked for its hash), as a client does that edits a copy
            let real = eng.transposition_hash();
            let cloned = |side2: bool, b: &Board| -> u64 {
                let pb = piece_board_of(b);
                let h = Zobrist::from_piece_board(pb.piece_board(), side2, step);
                GameState::new(side2, mn, Phase::PlayPhase(pp.clone()), pb, h).transposition_hash()
            };
            let c_same = cloned(side, &v.m.board);
            let c_other = cloned(!side, &v.m.board);
            let mut c_content: Vec<u64> = vec![];
            if let Some(&q) = squares.first() {
                for c in 0..13u8 {
                    let code = if c == 0 { m::EMPTY } else if c <= 6 { m::mk(true, c) } else { m::mk(false, c - 6) };
                    let mut b = v.m.board;
                    b.0[q as usize] = code;
                    c_content.push(cloned(side, &b));
                }
            }
            (base, real, by_status, other_side, by_content, (c_same, c_other, c_content, squares.first().copied()), by_step)
        });
        let (base, real, by_status, other_side, by_content, cl, by_step) = match r {
            Ok(x) => x,
            Err(_) => {
                st.bump("twin_construction_panicked");
                return Ok(());
            }
        };
        if base != real {
            // the rebuilt state is not a faithful copy (another property's business): no twins
            st.bump("rebuilt_state_hash_differs");
            return Ok(());
        }
        st.eval();
        let mut idx: Vec<usize> = (0..by_status.len()).collect();
        idx.sort_by_key(|&i| by_status[i]);
        for w in idx.windows(2) {
            ensure!(by_status[w[0]] != by_status[w[1]], "C17:status", "two states that differ only in the pending push/pull ({:?} vs {:?}) have the same transposition hash {:#018x}; both are {} with its own per-turn record, history and capture flag (captured this turn: {})", statuses[w[0]], statuses[w[1]], by_status[w[0]], v.describe(), v.m.captured_this_turn);
        }
        ensure!(other_side != base, "C17:side", "the state {} and the same state with the other side to move have the same transposition hash", v.describe());
        for i in 0..by_step.len() {
            for j in (i + 1)..by_step.len() {
                ensure!(by_step[i] != by_step[j], "C17:step", "two states that differ only in the step number ({} vs {}) have the same transposition hash; both are {} with its turn-start board, history and capture flag", i + 1, j + 1, v.describe());
            }
        }
        if cl.0 == real {
            ensure!(cl.1 != real, "C17:side", "the state {} and the same state with the other side to move, built around a clone of its play phase, have the same transposition hash", v.describe());
            for i in 0..cl.2.len() {
                for j in (i + 1)..cl.2.len() {
                    ensure!(cl.2[i] != cl.2[j], "C17:square_content", "two states that differ only in the content of {}, both built around a clone of the play phase of {}, have the same transposition hash", m::sq_name(cl.3.unwrap_or(0)), v.describe());
                }
            }
            st.bump("neighbours_built_around_a_cloned_play_phase");
        }
        for (q, hs) in by_content.iter() {
            for i in 0..13 {
                for j in (i + 1)..13 {
                    ensure!(hs[i] != hs[j], "C17:square_content", "two states that differ only in the content of {} have the same transposition hash; both are {} otherwise", m::sq_name(*q), v.describe());
                }
            }
        }
        if !st.frozen {
            st.evaluations += 641 * 640 / 2;
        }
        if v.m.captured_this_turn {
            st.bump("contexts_with_a_capture_this_turn");
        }
        if v.m.status != Status::None {
            st.bump("contexts_with_something_pending");
        }
        st.nontrivial(fp_combine(v.m.fingerprint(), 17));
        Ok(())
    }
}

// =====================================================================================
// C19
// =====================================================================================
pub struct C19;

impl Obs for C19 {
    fn on_state(&mut self, v: &View, st: &mut Stats) -> Check {
        st.eval();
        let e = v.eng;
        let d = || v.describe();
        let va = v.va().as_ref().map_err(|p| Fail::new("C19:valid_actions", format!("{} at {}", p, d())))?;
        let vanr = v.vanr().as_ref().map_err(|p| Fail::new("C19:valid_actions_no_rep", format!("{} at {}", p, d())))?;
        v.terminal().as_ref().map_err(|p| Fail::new("C19:is_terminal", format!("{} at {}", p, d())))?;
        guard(|| e.can_pass(true)).map_err(|p| Fail::new("C19:can_pass", format!("{} at {}", p, d())))?;
        guard(|| e.can_pass(false)).map_err(|p| Fail::new("C19:can_pass", format!("{} at {}", p, d())))?;
        guard(|| e.has_move(e.piece_board())).map_err(|p| Fail::new("C19:has_move", format!("{} at {}", p, d())))?;
        guard(|| e.transposition_hash()).map_err(|p| Fail::new("C19:transposition_hash", format!("{} at {}", p, d())))?;
        guard(|| e.to_string()).map_err(|p| Fail::new("C19:to_string", format!("{} at {}", p, d())))?;
        guard(|| (e.is_p1_turn_to_move(), e.move_number(), e.is_play_phase(), e.piece_board().trapped_piece_bits())).map_err(|p| Fail::new("C19:getters", format!("{} at {}", p, d())))?;
        // the trait implementations are public queries as well: comparison with an equal state (a
        // clone) and with a different one, hashing, use as a key of a hash set, Debug output
        guard(|| {
            use std::hash::{Hash, Hasher};
            let c = e.clone();
            let same = *e == c;
            let mut h = std::collections::hash_map::DefaultHasher::new();
            e.hash(&mut h);
            let hv = h.finish();
            let mut set = std::collections::HashSet::new();
            set.insert(c);
            let found = set.contains(e);
            let dbg = format!("{:?}", e).len();
            (same, hv, found, dbg)
        })
        .map_err(|p| Fail::new("C19:traits", format!("==, Hash, HashSet lookup or Debug: {} at {}", p, d())))?;
        if !v.m.setup {
            for i in 0..=v.m.step {
                guard(|| e.piece_board_for_step(i).all_pieces).map_err(|p| Fail::new("C19:piece_board_for_step", format!("step {}: {} at {}", i, p, d())))?;
            }
            guard(|| {
                let pp = e.unwrap_play_phase();
                (e.current_step(), pp.push_pull_state(), pp.previous_piece_boards().len(), pp.hash_history().len(), pp.piece_trapped_this_turn())
            })
            .map_err(|p| Fail::new("C19:play_phase_getters", format!("{} at {}", p, d())))?;
        }
        // every offered action: preview and application (the result of an application must itself be
        // queryable for its hash)
        let mut all = va.clone();
        // rule-only actions that do not end the turn are offered too; the withheld ones are not
        for a in vanr {
            if !all.contains(a) {
                st.bump("withheld_action_not_applied");
            }
        }
        all.dedup();
        for a in all.iter() {
            guard(|| e.trapped_animal_for_action(a)).map_err(|p| Fail::new("C19:trapped_animal_for_action", format!("{} for {} at {}", p, action_text(a), d())))?;
            let n = guard(|| e.take_action(a)).map_err(|p| Fail::new("C19:take_action", format!("{} for {} at {}", p, action_text(a), d())))?;
            guard(|| n.transposition_hash()).map_err(|p| Fail::new("C19:transposition_hash", format!("{} after {} at {}", p, action_text(a), d())))?;
            guard(|| (n == *e, *e == n)).map_err(|p| Fail::new("C19:traits", format!("comparing the state with its successor: {} after {} at {}", p, action_text(a), d())))?;
        }
        // ---- statistics
        let mut nt = false;
        if vanr.len() > 64 {
            st.bump("state_with_more_than_64_offered_actions");
        }
        if !v.m.setup {
            match v.m.status {
                Status::MustCompletePush { .. } => {
                    st.bump("state_push_pending");
                    nt = true
                }
                Status::PossiblePull { .. } => {
                    st.bump("state_possible_pull");
                    nt = true
                }
                Status::None => {}
            }
            if v.m.step == 3 {
                st.bump("state_step3");
                nt = true;
            }
            if v.m.captured_this_turn {
                st.bump("state_capture_this_turn");
                nt = true;
            }
            if v.m.board.piece_count() <= 2 {
                st.bump("state_le2_pieces");
                nt = true;
            }
        } else if v.m.placed_by_mover() == 15 {
            st.bump("setup_state_one_square_left");
            nt = true;
        }
        if nt {
            st.nontrivial(v.m.fingerprint());
        }
        Ok(())
    }
}

// =====================================================================================
// C11 — metamorphic, no model in the oracle
// =====================================================================================

#[derive(Clone, Copy, Debug, PartialEq, Eq)]
pub enum Sym {
    Mirror,
    Swap,
    Both,
}

pub fn sym_sq(s: Sym, sq: u8) -> u8 {
    let (f, r) = (sq % 8, sq / 8);
    match s {
        Sym::Mirror => r * 8 + (7 - f),
        Sym::Swap => (7 - r) * 8 + f,
        Sym::Both => (7 - r) * 8 + (7 - f),
    }
}
pub fn sym_dir(s: Sym, d: u8) -> u8 {
    let flip_ew = |d: u8| match d {
        1 => 3,
        3 => 1,
        x => x,
    };
    let flip_ns = |d: u8| match d {
        0 => 2,
        2 => 0,
        x => x,
    };
    match s {
        Sym::Mirror => flip_ew(d),
        Sym::Swap => flip_ns(d),
        Sym::Both => flip_ns(flip_ew(d)),
    }
}
pub fn sym_code(s: Sym, c: u8) -> u8 {
    if c == m::EMPTY || s == Sym::Mirror {
        c
    } else {
        m::mk(!m::is_gold(c), m::kind(c))
    }
}
pub fn sym_board(s: Sym, b: &Board) -> Board {
    let mut o = Board::empty();
    for i in 0..64u8 {
        o.0[sym_sq(s, i) as usize] = sym_code(s, b.at(i));
    }
    o
}
pub fn sym_action(s: Sym, a: MAction) -> MAction {
    match a {
        MAction::Step { from, dir } => MAction::Step { from: sym_sq(s, from), dir: sym_dir(s, dir) },
        x => x,
    }
}
pub fn sym_winner(s: Sym, w: Option<m::Winner>) -> Option<m::Winner> {
    match (s, w) {
        (Sym::Mirror, w) => w,
        (_, Some(m::Winner::Gold)) => Some(m::Winner::Silver),
        (_, Some(m::Winner::Silver)) => Some(m::Winner::Gold),
        (_, None) => None,
    }
}
pub fn sym_status(s: Sym, st: Status) -> Status {
    match st {
        Status::None => Status::None,
        Status::PossiblePull { sq, kind } => Status::PossiblePull { sq: sym_sq(s, sq), kind },
        Status::MustCompletePush { sq, kind } => Status::MustCompletePush { sq: sym_sq(s, sq), kind },
    }
}

pub struct C11 {
    images: Vec<(Sym, GameState)>,
    active: bool,
    saw_capture: bool,
    saw_pushpull: bool,
    saw_withheld: bool,
    start_fp: u64,
}

impl C11 {
    pub fn new() -> C11 {
        C11 { images: vec![], active: false, saw_capture: false, saw_pushpull: false, saw_withheld: false, start_fp: 0 }
    }
    fn init(&mut self, v: &View) -> Check {
        // images are started from the transformed diagram at a point where the history holds
        // exactly the current position once (a parsed start, or the first state of the play phase)
        self.images.clear();
        for s in [Sym::Mirror, Sym::Swap, Sym::Both] {
            let b = sym_board(s, &v.m.board);
            let side = if s == Sym::Mirror { v.m.gold_to_move } else { !v.m.gold_to_move };
            match engine_from_position(&b, side, v.m.move_number) {
                Ok(g) => self.images.push((s, g)),
                Err(e) => return Err(Fail::new("harness:start", e)),
            }
        }
        self.active = true;
        self.start_fp = v.m.board.fingerprint();
        Ok(())
    }
}

impl Obs for C11 {
    fn on_state(&mut self, v: &View, st: &mut Stats) -> Check {
        if v.m.setup {
            return Ok(());
        }
        if !self.active {
            if v.m.history.list.len() == 1 && v.m.step == 0 {
                self.init(v)?;
            } else {
                return Ok(());
            }
        }
        st.eval();
        let (va, vanr, term) = match (v.va(), v.vanr(), v.terminal()) {
            (Ok(a), Ok(b), Ok(c)) => (a, b, c),
            _ => {
                st.bump("oracle_skipped_engine_panic_in_listing");
                return Ok(());
            }
        };
        let status = guard(|| status_of(v.eng.unwrap_play_phase().push_pull_state())).map_err(|p| Fail::new("C11:panic", p))?;
        let cp = guard(|| (v.eng.can_pass(true), v.eng.can_pass(false))).map_err(|p| Fail::new("C11:panic", p))?;
        if va.len() != vanr.len() {
            self.saw_withheld = true;
            st.bump("state_with_withheld_action");
        }
        if status != Status::None {
            self.saw_pushpull = true;
        }
        for (s, img) in self.images.iter() {
            let s = *s;
            let r = guard(|| (img.valid_actions(), img.valid_actions_no_rep(), winner_of(&img.is_terminal()), status_of(img.unwrap_play_phase().push_pull_state()), img.can_pass(true), img.can_pass(false)))
                .map_err(|p| Fail::new("C11:image_panic", format!("image under {:?} panicked: {} at {}", s, p, v.describe())))?;
            let map = |l: &[Action]| -> BTreeSet<MAction> { l.iter().map(|a| sym_action(s, to_maction(a))).collect() };
            ensure!(map(va) == mset(&r.0), "C11:offered", "under {:?} the offered actions [{}] do not map onto the image's [{}] at {}", s, actions_text(va), actions_text(&r.0), v.describe());
            ensure!(map(vanr) == mset(&r.1), "C11:offered_norep", "under {:?} the rule-only actions [{}] do not map onto the image's [{}] at {}", s, actions_text(vanr), actions_text(&r.1), v.describe());
            ensure!(sym_winner(s, *term) == r.2, "C11:result", "under {:?} result {:?} maps to {:?} but the image reports {:?} at {}", s, term, sym_winner(s, *term), r.2, v.describe());
            ensure!(sym_status(s, status) == r.3, "C11:status", "under {:?} status {:?} vs image {:?} at {}", s, status, r.3, v.describe());
            ensure!(cp == (r.4, r.5), "C11:can_pass", "under {:?} can_pass differs at {}", s, v.describe());
            // captures map to captures, for every offered action
            for a in va.iter() {
                let ia = to_action(sym_action(s, to_maction(a)));
                let t = guard(|| (v.eng.trapped_animal_for_action(a), img.trapped_animal_for_action(&ia))).map_err(|p| Fail::new("C11:panic", p))?;
                let t0 = t.0.map(|(sq, p, g)| (sym_sq(s, sq.index() as u8), p, if s == Sym::Mirror { g } else { !g }));
                let t1 = t.1.map(|(sq, p, g)| (sq.index() as u8, p, g));
                ensure!(t0 == t1, "C11:capture_preview", "under {:?} capture of {} maps to {:?} but image previews {:?} at {}", s, action_text(a), t0, t1, v.describe());
            }
        }
        Ok(())
    }
    fn on_edge(&mut self, e: &Edge, st: &mut Stats) -> Check {
        if !self.active {
            return Ok(());
        }
        if !e.removed.is_empty() {
            self.saw_capture = true;
        }
        let mut next = vec![];
        for (s, img) in self.images.iter() {
            let ia = to_action(sym_action(*s, e.maction));
            let n = guard(|| img.take_action(&ia)).map_err(|p| Fail::new("C11:image_panic", format!("image under {:?} panicked applying {}: {} at {}", s, action_text(&ia), p, e.before.describe())))?;
            // captures map to captures: boards stay images of each other
            let ib = read_board(n.piece_board()).map_err(|x| Fail::new("C11:image_board", x))?;
            let ob = read_board(e.after_eng.piece_board()).map_err(|x| Fail::new("C11:image_board", x))?;
            ensure!(sym_board(*s, &ob) == ib, "C11:board_after", "under {:?} the boards after {} are not images of each other at {}: [{}] vs [{}]", s, e.maction.text(), e.before.describe(), board_text(&ob), board_text(&ib));
            next.push((*s, n));
        }
        self.images = next;
        let _ = st;
        Ok(())
    }
    fn on_end(&mut self, _v: &View, st: &mut Stats) -> Check {
        if self.active {
            if self.saw_capture {
                st.bump("game_with_capture");
            }
            if self.saw_pushpull {
                st.bump("game_with_push_or_pull");
            }
            if self.saw_withheld {
                st.bump("game_with_withheld_action");
            }
            if self.saw_capture || self.saw_pushpull || self.saw_withheld {
                st.nontrivial(fp_combine(self.start_fp, _v.m.fingerprint()));
            }
        }
        Ok(())
    }
}

pub fn sample_case_json(start: &Start, actions: &[Action]) -> serde_json::Value {
    json!({
        "start": crate::drive::start_json(start),
        "actions": actions.iter().take(60).map(action_text).collect::<Vec<_>>().join(" "),
        "actions_total": actions.len(),
    })
}

#[allow(dead_code)]
fn _unused(_: Piece) {}
