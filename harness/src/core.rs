//! Shared plumbing: panic guard, failure type, statistics, engine <-> model conversions.

use crate::model::{self as m, Board, MAction, Status, Winner};
use arimaa_engine_step::{
    Action, Direction, GameState, Piece, PieceBoardState, PushPullState, Square, Terminal,
};
use serde_json::{json, Value};
use std::cell::RefCell;
use std::collections::{BTreeMap, HashSet};
use std::panic::{self, AssertUnwindSafe};
use std::sync::Once;

// ------------------------------------------------------------------ panic guard

thread_local! {
    static LAST_PANIC: RefCell<Option<String>> = const { RefCell::new(None) };
}
static HOOK: Once = Once::new();

/// Installs a silent panic hook that records message and location per thread.
pub fn install_hook() {
    HOOK.call_once(|| {
        panic::set_hook(Box::new(|info| {
            let msg = if let Some(s) = info.payload().downcast_ref::<&str>() {
                s.to_string()
            } else if let Some(s) = info.payload().downcast_ref::<String>() {
                s.clone()
            } else {
                "<non-string panic>".to_string()
            };
            let loc = info
                .location()
                .map(|l| format!("{}:{}", l.file(), l.line()))
                .unwrap_or_else(|| "?".into());
            if std::env::var_os("VERIF_DEBUG_PANICS").is_some() {
                eprintln!("[panic] {} @ {}", msg, loc);
            }
            // (try_with: the guard is also used while a thread's locals are being destroyed; the
            // message then goes to a process-wide table)
            let text = format!("{} @ {}", msg, loc);
            if LAST_PANIC.try_with(|p| *p.borrow_mut() = Some(text.clone())).is_err() {
                if let Ok(mut t) = LATE_PANICS.lock() {
                    let me = std::thread::current().id();
                    t.retain(|x| x.0 != me);
                    t.push((me, text));
                }
            }
        }));
    });
}

static LATE_PANICS: std::sync::Mutex<Vec<(std::thread::ThreadId, String)>> = std::sync::Mutex::new(Vec::new());

/// Runs `f`, turning a panic into Err(message @ file:line).
pub fn guard<T>(f: impl FnOnce() -> T) -> Result<T, String> {
    install_hook();
    match panic::catch_unwind(AssertUnwindSafe(f)) {
        Ok(v) => Ok(v),
        Err(_) => Err(LAST_PANIC
            .try_with(|p| p.borrow_mut().take())
            .ok()
            .flatten()
            .or_else(|| {
                let me = std::thread::current().id();
                LATE_PANICS.lock().ok().and_then(|mut t| t.iter().position(|x| x.0 == me).map(|i| t.remove(i).1))
            })
            .unwrap_or_else(|| "<panic without message>".into())),
    }
}

// ------------------------------------------------------------------ calling from a thread-local destructor
struct Late(Option<Box<dyn FnOnce() + Send>>);
impl Drop for Late {
    fn drop(&mut self) {
        if let Some(f) = self.0.take() {
            let _ = panic::catch_unwind(AssertUnwindSafe(f));
        }
    }
}
thread_local! {
    static LATE: RefCell<Option<Late>> = const { RefCell::new(None) };
}

/// Runs `warmup` on a fresh thread and then `late` from the destructor of a thread-local of that thread
/// which was set up before `warmup` ran - so it runs while the thread exits, after every thread-local
/// first used during `warmup` has already been destroyed (destructors run in reverse order). That is
/// where a client's per-thread log, cache or statistics object flushes itself.
/// None if the destructor did not run or did not finish.
pub fn in_tls_destructor<R: Send + 'static>(warmup: impl FnOnce() + Send + 'static, late: impl FnOnce() -> R + Send + 'static) -> Option<R> {
    install_hook();
    let (tx, rx) = std::sync::mpsc::channel::<R>();
    let h = std::thread::spawn(move || {
        LATE.with(|l| {
            *l.borrow_mut() = Some(Late(Some(Box::new(move || {
                let _ = tx.send(late());
            }))))
        });
        let _ = guard(warmup);
    });
    let _ = h.join();
    rx.recv_timeout(std::time::Duration::from_secs(30)).ok()
}


// ------------------------------------------------------------------ logging on
/// A logger that accepts everything and discards it. With a logger installed at the most verbose
/// level every `log::debug!(...)`/`trace!(...)` in the engine evaluates its arguments, as it does in
/// a client that has logging switched on.
struct DevNull;
impl log::Log for DevNull {
    fn enabled(&self, _: &log::Metadata) -> bool {
        true
    }
    fn log(&self, record: &log::Record) {
        // format the message (that is where argument expressions run), then drop it
        let _ = format!("{}", record.args());
    }
    fn flush(&self) {}
}
static DEVNULL: DevNull = DevNull;
pub fn enable_logging() {
    let _ = log::set_logger(&DEVNULL);
    log::set_max_level(log::LevelFilter::Trace);
}

// ------------------------------------------------------------------ failure

#[derive(Clone, Debug)]
pub struct Fail {
    pub clause: String,
    pub detail: String,
}

impl Fail {
    pub fn new(clause: &str, detail: String) -> Fail {
        Fail { clause: clause.to_string(), detail }
    }
}

pub type Check = Result<(), Fail>;

#[macro_export]
macro_rules! ensure {
    ($cond:expr, $clause:expr, $($arg:tt)*) => {
        if !($cond) {
            return Err($crate::core::Fail::new($clause, format!($($arg)*)));
        }
    };
}

// ------------------------------------------------------------------ statistics

#[derive(Default, Clone)]
pub struct Stats {
    pub evaluations: u64,
    pub counters: BTreeMap<String, u64>,
    pub nontrivial: HashSet<u64>,
    pub samples: Vec<Value>,
    /// cases for which counting is suspended (proptest re-runs the closure while shrinking)
    pub frozen: bool,
}

impl Stats {
    pub fn bump(&mut self, key: &str) {
        self.add(key, 1);
    }
    pub fn add(&mut self, key: &str, n: u64) {
        if self.frozen {
            return;
        }
        if let Some(v) = self.counters.get_mut(key) {
            *v += n;
        } else {
            self.counters.insert(key.to_string(), n);
        }
    }
    pub fn eval(&mut self) {
        if !self.frozen {
            self.evaluations += 1;
        }
    }
    pub fn nontrivial(&mut self, fp: u64) {
        if !self.frozen {
            self.nontrivial.insert(fp);
        }
    }
    pub fn sample(&mut self, max: usize, f: impl FnOnce() -> Value) {
        if !self.frozen && self.samples.len() < max {
            self.samples.push(f());
        }
    }
    pub fn merge(&mut self, o: Stats) {
        self.evaluations += o.evaluations;
        for (k, v) in o.counters {
            *self.counters.entry(k).or_insert(0) += v;
        }
        self.nontrivial.extend(o.nontrivial);
        for s in o.samples {
            if self.samples.len() < 12 {
                self.samples.push(s);
            }
        }
    }
    pub fn get(&self, key: &str) -> u64 {
        self.counters.get(key).copied().unwrap_or(0)
    }
}

pub fn mix64(mut z: u64) -> u64 {
    z = z.wrapping_add(0x9e3779b97f4a7c15);
    z = (z ^ (z >> 30)).wrapping_mul(0xbf58476d1ce4e5b9);
    z = (z ^ (z >> 27)).wrapping_mul(0x94d049bb133111eb);
    z ^ (z >> 31)
}
pub fn fp_combine(a: u64, b: u64) -> u64 {
    mix64(a ^ mix64(b))
}
pub fn fp_str(s: &str) -> u64 {
    let mut h: u64 = 0xcbf29ce484222325;
    for &c in s.as_bytes() {
        h ^= c as u64;
        h = h.wrapping_mul(0x100000001b3);
    }
    mix64(h)
}

// ------------------------------------------------------------------ conversions

pub const ENGINE_PIECES: [Piece; 6] =
    [Piece::Rabbit, Piece::Cat, Piece::Dog, Piece::Horse, Piece::Camel, Piece::Elephant];

pub fn piece_to_kind(p: Piece) -> u8 {
    match p {
        Piece::Rabbit => m::R,
        Piece::Cat => m::C,
        Piece::Dog => m::D,
        Piece::Horse => m::H,
        Piece::Camel => m::M,
        Piece::Elephant => m::E,
    }
}
pub fn kind_to_piece(k: u8) -> Piece {
    match k {
        m::R => Piece::Rabbit,
        m::C => Piece::Cat,
        m::D => Piece::Dog,
        m::H => Piece::Horse,
        m::M => Piece::Camel,
        m::E => Piece::Elephant,
        _ => panic!("bad kind {}", k),
    }
}
pub fn dir_to_u8(d: Direction) -> u8 {
    match d {
        Direction::Up => 0,
        Direction::Right => 1,
        Direction::Down => 2,
        Direction::Left => 3,
    }
}
pub fn u8_to_dir(d: u8) -> Direction {
    match d {
        0 => Direction::Up,
        1 => Direction::Right,
        2 => Direction::Down,
        3 => Direction::Left,
        _ => panic!("bad dir"),
    }
}
pub fn to_maction(a: &Action) -> MAction {
    match a {
        Action::Pass => MAction::Pass,
        Action::Place(p) => MAction::Place(piece_to_kind(*p)),
        Action::Move(sq, d) => MAction::Step { from: sq.index() as u8, dir: dir_to_u8(*d) },
    }
}
pub fn to_action(a: MAction) -> Action {
    match a {
        MAction::Pass => Action::Pass,
        MAction::Place(k) => Action::Place(kind_to_piece(k)),
        MAction::Step { from, dir } => Action::Move(Square::from_index(from), u8_to_dir(dir)),
    }
}
pub fn action_text(a: &Action) -> String {
    // independent of the engine's Display (which is under test in C16)
    to_maction(a).text()
}
pub fn actions_text(v: &[Action]) -> String {
    v.iter().map(action_text).collect::<Vec<_>>().join(" ")
}
pub fn mactions_text<'a>(v: impl IntoIterator<Item = &'a MAction>) -> String {
    v.into_iter().map(|a| a.text()).collect::<Vec<_>>().join(" ")
}

/// Reads the engine's raw bitboards into a model board using only the numbering convention of
/// C10 (bit i = square i). Err if the eight boards do not describe one piece per square.
pub fn read_board(pb: &PieceBoardState) -> Result<Board, String> {
    let types: [(u64, u8); 6] = [
        (pb.rabbits, m::R),
        (pb.cats, m::C),
        (pb.dogs, m::D),
        (pb.horses, m::H),
        (pb.camels, m::M),
        (pb.elephants, m::E),
    ];
    let mut b = Board::empty();
    for i in 0..64u8 {
        let bit = 1u64 << i;
        let mut found = None;
        for (bits, k) in types.iter() {
            if bits & bit != 0 {
                if found.is_some() {
                    return Err(format!("two piece types on {}", m::sq_name(i)));
                }
                found = Some(*k);
            }
        }
        let occupied = pb.all_pieces & bit != 0;
        match (found, occupied) {
            (Some(k), true) => b.0[i as usize] = m::mk(pb.p1_pieces & bit != 0, k),
            (None, false) => {
                if pb.p1_pieces & bit != 0 {
                    return Err(format!("p1_pieces set on empty {}", m::sq_name(i)));
                }
            }
            (Some(_), false) => {
                return Err(format!("type board set but all_pieces clear on {}", m::sq_name(i)))
            }
            (None, true) => {
                return Err(format!("all_pieces set but no type on {}", m::sq_name(i)))
            }
        }
    }
    Ok(b)
}

/// Like read_board, but ownership bits on empty squares are ignored (used only to decide whether a
/// parsed start shows the intended position; the strict reader is what the checks themselves use).
pub fn read_board_lenient(pb: &PieceBoardState) -> Result<Board, String> {
    let mut q = pb.clone();
    q.p1_pieces &= q.all_pieces;
    read_board(&q)
}

pub fn board_text(b: &Board) -> String {
    // compact one-line form: pieces as letter+square
    let mut v = vec![];
    for i in 0..64u8 {
        if b.at(i) != m::EMPTY {
            v.push(format!("{}{}", m::code_letter(b.at(i)), m::sq_name(i)));
        }
    }
    v.join(" ")
}

pub fn status_of(pp: PushPullState) -> Status {
    match pp {
        PushPullState::None => Status::None,
        PushPullState::PossiblePull(sq, p) => {
            Status::PossiblePull { sq: sq.index() as u8, kind: piece_to_kind(p) }
        }
        PushPullState::MustCompletePush(sq, p) => {
            Status::MustCompletePush { sq: sq.index() as u8, kind: piece_to_kind(p) }
        }
    }
}

pub fn winner_of(t: &Option<Terminal>) -> Option<Winner> {
    match t {
        None => None,
        Some(Terminal::GoldWin) => Some(Winner::Gold),
        Some(Terminal::SilverWin) => Some(Winner::Silver),
    }
}

/// Engine state for a model position, through the documented entry (the diagram parser).
pub fn engine_from_position(b: &Board, gold_to_move: bool, move_number: usize) -> Result<GameState, String> {
    engine_from_position_styled(b, gold_to_move, move_number, 0)
}

pub fn engine_from_position_styled(b: &Board, gold_to_move: bool, move_number: usize, notation: u8) -> Result<GameState, String> {
    let text = b.diagram_styled(move_number, gold_to_move, notation);
    let gs = guard(|| text.parse::<GameState>())
        .map_err(|e| format!("parser panicked on harness diagram: {}", e))?
        .map_err(|e| format!("parser rejected harness diagram: {}", e))?;
    let rb = read_board_lenient(gs.piece_board())?;
    if rb != *b || gs.is_p1_turn_to_move() != gold_to_move || gs.move_number() != move_number {
        return Err(format!("parser built a different position from the harness diagram:\n{}", text));
    }
    Ok(gs)
}

pub fn state_json(eng: &GameState, model: &crate::model::Model) -> Value {
    json!({
        "board": board_text(&model.board),
        "gold_to_move": model.gold_to_move,
        "step": model.step,
        "setup": model.setup,
        "move_number": model.move_number,
        "engine_print": guard(|| eng.to_string()).unwrap_or_else(|e| format!("<panic {}>", e)),
    })
}
