//! The walker (stateful driver) and the turn-tree expander (DESIGN.md §3.3).
//!
//! Both advance the engine and the reference model in lock-step and only through actions the
//! engine *offers*, because only those states are reachable for a real driver. Observers
//! (one per property) are called at every visited state and on every applied action.

use crate::core::*;
use crate::gen::{Case, PosSpec, Start};
use crate::model::{self as m, Board, MAction, Model};
use arimaa_engine_step::{Action, GameState};
use serde_json::{json, Value};
use std::cell::OnceCell;
use std::collections::HashSet;

/// A visited state: engine state + model state + lazily computed action lists (guarded).
pub struct View<'a> {
    pub eng: &'a GameState,
    pub m: &'a Model,
    va: OnceCell<Result<Vec<Action>, String>>,
    vanr: OnceCell<Result<Vec<Action>, String>>,
    term: OnceCell<Result<Option<m::Winner>, String>>,
    /// true if the state was reached by the expander (not on the walker's main line)
    pub in_tree: bool,
}

impl<'a> View<'a> {
    pub fn new(eng: &'a GameState, m: &'a Model, in_tree: bool) -> View<'a> {
        View { eng, m, va: OnceCell::new(), vanr: OnceCell::new(), term: OnceCell::new(), in_tree }
    }
    pub fn va(&self) -> &Result<Vec<Action>, String> {
        self.va.get_or_init(|| guard(|| self.eng.valid_actions()))
    }
    pub fn vanr(&self) -> &Result<Vec<Action>, String> {
        self.vanr.get_or_init(|| guard(|| self.eng.valid_actions_no_rep()))
    }
    pub fn terminal(&self) -> &Result<Option<m::Winner>, String> {
        self.term.get_or_init(|| guard(|| winner_of(&self.eng.is_terminal())))
    }
    /// Asks the state's public queries once in the order number `order` (one of 64 fixed permutations,
    /// some queries twice) before an observer looks at it; the lists and the result an observer then sees
    /// are the ones obtained in that order. Everything is guarded.
    pub fn prequery(&self, order: u8) {
        let mut qs: Vec<u8> = (0..14u8).collect();
        let mut z = 0x9e3779b97f4a7c15u64.wrapping_mul(order as u64 + 1);
        for i in (1..qs.len()).rev() {
            z = mix64(z);
            qs.swap(i, (z % (i as u64 + 1)) as usize);
        }
        let e = self.eng;
        for q in qs {
            let _ = guard(|| match q {
                0 => {
                    let _ = self.va();
                }
                1 => {
                    let _ = self.vanr();
                }
                2 => {
                    let _ = self.terminal();
                }
                3 => {
                    let _ = e.can_pass(true);
                }
                4 => {
                    let _ = e.can_pass(false);
                }
                5 => {
                    let _ = e.has_move(e.piece_board());
                }
                6 => {
                    let _ = e.transposition_hash();
                }
                7 => {
                    let _ = e.to_string();
                }
                8 => {
                    if e.is_play_phase() {
                        for i in 0..=e.current_step() {
                            let _ = e.piece_board_for_step(i).all_pieces;
                        }
                    }
                }
                9 => {
                    for a in e.valid_actions_no_rep().iter().take(6) {
                        let _ = e.trapped_animal_for_action(a);
                    }
                }
                10 => {
                    for a in e.valid_actions().iter().rev().take(4) {
                        let n = e.take_action(a);
                        let _ = n.transposition_hash();
                    }
                }
                11 => {
                    let c = e.clone();
                    let _ = c == *e;
                    let _ = c.valid_actions_no_rep();
                }
                12 => {
                    let _ = e.valid_actions_no_rep();
                    let _ = e.valid_actions();
                }
                _ => {
                    let _ = e.is_terminal();
                    let _ = e.can_pass(true);
                }
            });
        }
    }
    pub fn describe(&self) -> String {
        format!(
            "[{} {} step {} move {} | {} | parse {:?} | status {:?}]",
            if self.m.setup { "setup" } else { "play" },
            if self.m.gold_to_move { "gold" } else { "silver" },
            self.m.step,
            self.m.move_number,
            board_text(&self.m.board),
            self.m.parse,
            self.m.status
        )
    }
}

pub struct Edge<'a> {
    pub before: &'a View<'a>,
    pub action: &'a Action,
    pub maction: MAction,
    pub after_eng: &'a GameState,
    pub after_m: &'a Model,
    /// pieces the model removed (square, code)
    pub removed: &'a [(u8, u8)],
    /// whether the model considers the action legal by the rules (repetition aside)
    pub model_legal: bool,
}

pub trait Obs {
    fn on_start(&mut self, _start: &Start, _v: &View, _st: &mut Stats) -> Check {
        Ok(())
    }
    fn on_state(&mut self, _v: &View, _st: &mut Stats) -> Check {
        Ok(())
    }
    fn on_edge(&mut self, _e: &Edge, _st: &mut Stats) -> Check {
        Ok(())
    }
    /// called once when the walk is over with the final view
    fn on_end(&mut self, _v: &View, _st: &mut Stats) -> Check {
        Ok(())
    }
}

#[derive(Clone, Copy, Debug, PartialEq, Eq)]
pub enum Profile {
    Normal,
    /// undo/revisit and pass biases turned up: recurrences within a dozen turns
    Cycle,
    /// captures and enemy steps turned up
    Fight,
}

#[derive(Clone, Copy, Debug)]
pub struct ExpandOpts {
    /// fan-out caps per depth (0 = all children)
    pub caps: [usize; 3],
    /// expand a turn start when (aux-derived) draw < this out of 256; the start is always expanded
    pub rate: u8,
    /// node budget per case
    pub max_nodes: usize,
}

#[derive(Clone, Copy, Debug)]
pub struct WalkOpts {
    pub profile: Profile,
    pub expand: Option<ExpandOpts>,
    /// choose from valid_actions_no_rep() instead of valid_actions(): the documented use of that list
    /// (populating a transposition table) applies actions the repetition rules withhold. Only the
    /// crash oracle (C19) is meaningful on such walks.
    pub follow_norep: bool,
    /// observe, besides every mid-turn main-line state, forks of it whose repetition history has
    /// been extended so that turn-ending actions become third occurrences (see `fork_with_history`)
    pub inject: Inject,
    /// interference probe: before some states are observed a second time, a type-permuted twin of the
    /// position (same squares, same colours, other piece types) is queried on the same thread and the
    /// state's own has_move is called with foreign boards. Nothing a query computes may depend on what
    /// was asked before.
    pub interfere: bool,
    /// keep taking offered actions after a result has been reported (the engine goes on offering them,
    /// and the repository's own tests act on finished positions); at most 12 more actions
    pub play_on: bool,
}

#[derive(Clone, Copy, Debug, PartialEq, Eq)]
pub enum Inject {
    No,
    /// all variants at every eligible state
    Auto,
    /// replay: this variant at the final state only
    AtEnd(u8),
    /// no injection: every play-phase state (main line and turn-tree nodes) is additionally observed
    /// after having been rebuilt through the public constructors (GameState::new, PlayPhase::new, ...)
    Rebuild,
}

pub const VARIANT_REBUILD: u8 = 255;
/// the failing state was expanded right after its transposed twin (the last three branch actions are
/// o1, o2, x: the twin is o2, o1, x)
pub const VARIANT_TWIN: u8 = 254;
/// the failing observation was made right after the interference probe
pub const VARIANT_INTERFERE: u8 = 253;
/// The failure was observed while the state and a twin game (another turn start that reaches the same
/// board with its first step) were advanced in lockstep on one thread, see `lockstep_probe`.
pub const VARIANT_LOCKSTEP: u8 = 252;
/// The failure was observed at the end of a side walk of one to three offered actions below the state
/// during which the intermediate states were asked for nothing but their action list, see `sparse_probe`.
pub const VARIANT_SPARSE: u8 = 251;
/// The failure was observed below two sibling states of one turn that were both rebuilt through the
/// constructors and then advanced by the same step one right after the other, see `rebuilt_siblings_probe`.
pub const VARIANT_SIBLINGS: u8 = 250;
/// The failure was observed while a look-alike game was played alongside, see `lockstep_lookalike_probe`.
pub const VARIANT_LOOKALIKE: u8 = 249;

pub enum Source<'a> {
    Ops(&'a [(u16, u8)]),
    Explicit(&'a [Action]),
}

/// What happened, in the engine's own action notation, so a failure can be replayed without
/// proptest.
#[derive(Default, Clone)]
pub struct Trace {
    pub actions: Vec<Action>,
    /// extra actions below the main line when the failure was inside an expansion
    pub branch: Vec<Action>,
    /// the failure was observed on a fork of the last main-line state with an injected history
    /// (variant number), see `fork_with_history`
    pub fork: Option<u8>,
}

pub struct WalkFail {
    pub fail: Fail,
    pub trace: Trace,
    /// inconclusive (e.g. harness could not build the start): exit 2, not a violation
    pub inconclusive: bool,
}

pub fn start_states(start: &Start) -> Result<(GameState, Model), String> {
    match start {
        Start::Setup => Ok((GameState::initial(), Model::initial())),
        Start::Pos(PosSpec { board, gold_to_move, move_number, notation }) => {
            // generator soundness: a start that is not a legal position is a harness bug (inconclusive),
            // never a finding
            if !board.within_complement() {
                return Err(format!("harness generated a start position outside the complement: {}", board_text(board)));
            }
            let eng = engine_from_position_styled(board, *gold_to_move, *move_number, *notation)?;
            Ok((eng, Model::from_position(*board, *gold_to_move, *move_number)))
        }
    }
}

fn is_enemy_step(mo: &Model, a: &Action) -> bool {
    if let MAction::Step { from, .. } = to_maction(a) {
        let c = mo.board.at(from);
        c != m::EMPTY && m::is_gold(c) != mo.gold_to_move
    } else {
        false
    }
}

/// Resolves one (selector, bias) pair against the offered list. Pure.
/// What the walker remembers for steering (never used by an oracle).
#[derive(Default)]
pub struct Memory {
    pub seen: HashSet<Board>,
    /// steps (from, dir) each side made in its previous turn [silver, gold]
    pub prev_turn: [Vec<(u8, u8)>; 2],
    pub this_turn: Vec<(u8, u8)>,
}

impl Memory {
    pub fn record(&mut self, mo_before: &Model, a: MAction) {
        let side = mo_before.gold_to_move as usize;
        if let MAction::Step { from, dir } = a {
            self.this_turn.push((from, dir));
        }
        if mo_before.ends_turn(a) {
            self.prev_turn[side] = std::mem::take(&mut self.this_turn);
        }
    }
}

pub fn choose(
    offered: &[Action],
    mo: &Model,
    sel: u16,
    bias: u8,
    profile: Profile,
    mem: &Memory,
) -> usize {
    let seen = &mem.seen;
    let n = offered.len();
    debug_assert!(n > 0);
    let idx_in = |cands: &[usize]| cands[(sel as usize * cands.len()) >> 16];
    let all: Vec<usize> = (0..n).collect();
    if mo.setup {
        return match bias % 4 {
            0 => n - 1,
            1 => 0,
            _ => idx_in(&all),
        };
    }
    #[derive(PartialEq)]
    enum Cl {
        Uniform,
        Quiet,
        Pass,
        Enemy,
        Capture,
        Revisit,
        Undo,
        UndoOpp,
        Rabbit,
    }
    let b = bias % 16;
    let class = match profile {
        Profile::Normal => match b {
            0..=4 => Cl::Uniform,
            5 => Cl::Quiet,
            6 | 7 => Cl::Pass,
            8 | 9 => Cl::Enemy,
            10 | 11 => Cl::Capture,
            12 => Cl::Revisit,
            13 => Cl::Undo,
            14 => Cl::Rabbit,
            _ => Cl::Uniform,
        },
        Profile::Cycle => match b {
            0 | 1 => Cl::Quiet,
            2 => Cl::UndoOpp,
            3..=6 => Cl::Pass,
            7..=11 => Cl::Undo,
            12 | 13 => Cl::Revisit,
            14 => Cl::Enemy,
            _ => Cl::Uniform,
        },
        Profile::Fight => match b {
            0..=3 => Cl::Uniform,
            4 => Cl::Pass,
            5..=9 => Cl::Enemy,
            10..=13 => Cl::Capture,
            14 => Cl::Revisit,
            _ => Cl::Rabbit,
        },
    };
    let is_quiet = |i: usize| match to_maction(&offered[i]) {
        MAction::Step { from, .. } => {
            let c = mo.board.at(from);
            m::kind(c) != m::R && mo.result_board(to_maction(&offered[i])).map(|r| r.1.is_empty()).unwrap_or(false)
        }
        _ => false,
    };
    let undo_of = |i: usize| match to_maction(&offered[i]) {
        MAction::Step { from, dir } => mem.prev_turn[mo.gold_to_move as usize]
            .iter()
            .any(|&(pf, pd)| m::neighbour(pf, pd) == Some(from) && m::opposite(pd) == dir),
        _ => false,
    };
    let mut cands: Vec<usize> = match class {
        Cl::Uniform => vec![],
        Cl::Quiet => (0..n).filter(|&i| is_quiet(i)).collect(),
        Cl::Undo => (0..n).filter(|&i| undo_of(i)).collect(),
        // take back what the opponent did in its last turn (by pushing / pulling its piece back)
        Cl::UndoOpp => (0..n)
            .filter(|&i| match to_maction(&offered[i]) {
                MAction::Step { from, dir } => mem.prev_turn[!mo.gold_to_move as usize]
                    .iter()
                    .any(|&(pf, pd)| m::neighbour(pf, pd) == Some(from) && m::opposite(pd) == dir),
                _ => false,
            })
            .collect(),
        Cl::Pass => (0..n).filter(|&i| offered[i] == Action::Pass).collect(),
        Cl::Enemy => (0..n).filter(|&i| is_enemy_step(mo, &offered[i])).collect(),
        Cl::Capture => (0..n)
            .filter(|&i| match mo.result_board(to_maction(&offered[i])) {
                Some((_, rem)) => !rem.is_empty(),
                None => false,
            })
            .collect(),
        Cl::Revisit => (0..n)
            .filter(|&i| match to_maction(&offered[i]) {
                a @ MAction::Step { .. } => match mo.result_board(a) {
                    Some((b, _)) => seen.contains(&b),
                    None => false,
                },
                _ => false,
            })
            .collect(),
        Cl::Rabbit => (0..n)
            .filter(|&i| match to_maction(&offered[i]) {
                MAction::Step { from, dir } => {
                    let c = mo.board.at(from);
                    m::kind(c) == m::R
                        && m::is_gold(c) == mo.gold_to_move
                        && dir == if mo.gold_to_move { 0 } else { 2 }
                }
                _ => false,
            })
            .collect(),
    };
    if cands.is_empty() && class == Cl::Undo {
        cands = (0..n)
            .filter(|&i| match to_maction(&offered[i]) {
                a @ MAction::Step { .. } => mo.result_board(a).map(|r| seen.contains(&r.0)).unwrap_or(false),
                _ => false,
            })
            .collect();
    }
    if cands.is_empty() && profile == Profile::Cycle && class != Cl::Uniform {
        // keep cycle games alive: prefer steps that neither move a rabbit nor capture
        cands = (0..n).filter(|&i| is_quiet(i)).collect();
    }
    if cands.is_empty() {
        idx_in(&all)
    } else {
        idx_in(&cands)
    }
}

struct Expander<'o> {
    rebuild: bool,
    opts: ExpandOpts,
    nodes: usize,
    obs: &'o mut dyn Obs,
    aux: u64,
}

impl<'o> Expander<'o> {
    /// Depth-first over all step sequences inside the turn. Never crosses a turn end: turn-ending
    /// actions are applied (for the edge clauses) only if the engine offers them, and not followed.
    fn expand(
        &mut self,
        eng: &GameState,
        mo: &Model,
        depth: usize,
        path: &mut Vec<Action>,
        st: &mut Stats,
        is_root: bool,
    ) -> Result<(), (Fail, Vec<Action>)> {
        self.nodes += 1;
        let v = View::new(eng, mo, true);
        if !is_root {
            // the root was already observed by the walker
            self.obs.on_state(&v, st).map_err(|f| (f, path.clone()))?;
            if self.rebuild {
                observe_forks(eng, mo, &[VARIANT_REBUILD], self.obs, st).map_err(|(f, _)| (f, path.clone()))?;
            }
        }
        let vanr = match v.vanr() {
            Ok(l) => l.clone(),
            Err(_) => return Ok(()), // steering panic: C19's business
        };
        let va = match v.va() {
            Ok(l) => l.clone(),
            Err(_) => return Ok(()),
        };
        if let Ok(Some(_)) = v.terminal() {
            return Ok(()); // nothing is played after a reported result
        }
        let legal = mo.offered_norep();
        // children: non-turn-ending actions from the rule-only list, turn-ending ones only if offered
        let mut children: Vec<Action> = vec![];
        for a in vanr.iter() {
            let ma = to_maction(a);
            if mo.ends_turn(ma) {
                if va.contains(a) {
                    children.push(*a);
                }
            } else {
                children.push(*a);
            }
        }
        // sampling when over the cap for this depth (deterministic in aux and the node)
        let cap = if depth < 3 { self.opts.caps[depth] } else { 0 };
        let n = children.len();
        let chosen: Vec<usize> = if cap == 0 || n <= cap || self.nodes > self.opts.max_nodes {
            if self.nodes > self.opts.max_nodes {
                vec![]
            } else {
                (0..n).collect()
            }
        } else {
            let mut idx: Vec<usize> = (0..n).collect();
            let mut s = fp_combine(self.aux, mo.fingerprint());
            // partial Fisher-Yates
            for i in 0..cap {
                s = mix64(s);
                let j = i + (s as usize) % (n - i);
                idx.swap(i, j);
            }
            idx.truncate(cap);
            idx.sort();
            idx
        };
        if chosen.len() < n {
            st.bump("tree_nodes_with_sampled_children");
        } else {
            st.bump("tree_nodes_fully_expanded");
        }
        // ---- transposition probe (roots only): two orders of the same two steps reach the same board;
        // a client (search with a transposition table) expands such twins back to back. Whatever the
        // engine shares between states must not leak from one path into the other.
        if is_root && mo.step == 0 && self.rebuild && self.nodes <= self.opts.max_nodes {
            rebuilt_siblings_probe(eng, mo, self.obs, st).map_err(|f| (f, path.clone()))?;
        }
        if is_root && mo.step == 0 && self.nodes <= self.opts.max_nodes {
            let quiet: Vec<Action> = children.iter().copied().filter(|a| !mo.ends_turn(to_maction(a)) && legal.contains(&to_maction(a))).collect();
            let mut pairs = 0;
            'outer: for i in 0..quiet.len() {
                for j in (i + 1)..quiet.len() {
                    if pairs >= 8 {
                        break 'outer;
                    }
                    let (ai, aj) = (quiet[i], quiet[j]);
                    // both orders on the model
                    let mut ma = mo.clone();
                    let mut mb = mo.clone();
                    if ma.apply(to_maction(&ai)).is_err() || !ma.offered_norep().contains(&to_maction(&aj)) || ma.apply(to_maction(&aj)).is_err() {
                        continue;
                    }
                    if mb.apply(to_maction(&aj)).is_err() || !mb.offered_norep().contains(&to_maction(&ai)) || mb.apply(to_maction(&ai)).is_err() {
                        continue;
                    }
                    if ma.board != mb.board || ma.step != 2 || mb.step != 2 {
                        continue;
                    }
                    let built = guard(|| (eng.take_action(&ai).take_action(&aj), eng.take_action(&aj).take_action(&ai)));
                    let (ea, eb) = match built {
                        Ok(x) => x,
                        Err(_) => continue,
                    };
                    // a common further step, applied to both twins back to back
                    let xs: Vec<MAction> = ma.offered_norep().intersection(&mb.offered_norep()).copied().filter(|x| !ma.ends_turn(*x)).collect();
                    let x = match xs.first() {
                        Some(x) => *x,
                        None => continue,
                    };
                    let xa = to_action(x);
                    let kids = guard(|| (ea.take_action(&xa), eb.take_action(&xa)));
                    let (ca, cb) = match kids {
                        Ok(k) => k,
                        Err(_) => continue,
                    };
                    let mut mca = ma.clone();
                    let mut mcb = mb.clone();
                    if mca.apply(x).is_err() || mcb.apply(x).is_err() {
                        continue;
                    }
                    // the same twins once more with disjoint lifetimes: the second twin is kept (as an entry of
                    // a table would be); the first twin is expanded and let go of completely, with nothing
                    // else happening in between; then the second one is rebuilt through the constructors
                    // and expanded (storage the engine may have keyed something on is reused by then)
                    {
                        let second = guard(|| {
                            let b = eng.take_action(&aj).take_action(&ai);
                            {
                                let a = eng.take_action(&ai).take_action(&aj);
                                let c = a.take_action(&xa);
                                drop(c);
                                drop(a);
                            }
                            fork_with_history(&b, &mb, &[]).map(|r| r.0.take_action(&xa))
                        });
                        if let Ok(Some(c2)) = second {
                            st.bump("transposed_twins_with_disjoint_lifetimes");
                            self.obs.on_state(&View::new(&c2, &mcb, true), st).map_err(|f| {
                                let mut p = path.clone();
                                p.extend_from_slice(&[aj, ai, xa]);
                                (Fail::new(&f.clause, format!("(state expanded right after its transposed twin) (the twin had been expanded and dropped before this one was rebuilt through the constructors and expanded) {}", f.detail)), p)
                            })?;
                        }
                    }
                    pairs += 1;
                    st.bump("transposed_twins_expanded_back_to_back");
                    for (e, mm, order) in [(&cb, &mcb, [aj, ai]), (&ca, &mca, [ai, aj])] {
                        let v2 = View::new(e, mm, true);
                        self.obs.on_state(&v2, st).map_err(|f| {
                            let mut p = path.clone();
                            p.extend_from_slice(&order);
                            p.push(xa);
                            (Fail::new(&f.clause, format!("(state expanded right after its transposed twin) {}", f.detail)), p)
                        })?;
                    }
                }
            }
        }
        for i in chosen {
            let a = children[i];
            let ma = to_maction(&a);
            let model_legal = legal.contains(&ma);
            let child = match guard(|| eng.take_action(&a)) {
                Ok(c) => c,
                Err(_) => continue,
            };
            let mut cm = mo.clone();
            let removed = match cm.apply(ma) {
                Ok(r) => r,
                Err(_) => continue,
            };
            path.push(a);
            let e = Edge {
                before: &v,
                action: &a,
                maction: ma,
                after_eng: &child,
                after_m: &cm,
                removed: &removed,
                model_legal,
            };
            self.obs.on_edge(&e, st).map_err(|f| (f, path.clone()))?;
            if !mo.ends_turn(ma) && model_legal {
                self.expand(&child, &cm, depth + 1, path, st, false)?;
            } else if !mo.ends_turn(ma) {
                // engine offers something the model calls illegal: C01 reports it at the parent;
                // the subtree is not a set of reachable states by the model's lights
            } else {
                // the state after the turn end is observed but not expanded
                let cv = View::new(&child, &cm, true);
                self.obs.on_state(&cv, st).map_err(|f| (f, path.clone()))?;
            }
            path.pop();
        }
        Ok(())
    }
}


/// The turn-ending actions of a state whose results are injected into the history by a variant:
/// 0 = pass only, 1 = every turn-ending action that does not capture, 2 = every second one of those.
fn fork_targets(mo: &Model, vanr: &[Action], variant: u8) -> Vec<(Board, bool)> {
    let mut out: Vec<(Board, bool)> = vec![];
    let mut k = 0usize;
    if variant == 3 {
        // start of turn: the positions "one step, then pass" leads to (nothing may change for the mover:
        // the repetition rules only ever withhold turn-ending actions)
        for a in vanr.iter() {
            if let Some((rb, removed)) = mo.result_board(to_maction(a)) {
                if removed.is_empty() && !out.contains(&(rb, !mo.gold_to_move)) {
                    out.push((rb, !mo.gold_to_move));
                }
            }
        }
        return out;
    }
    for a in vanr.iter() {
        let ma = to_maction(a);
        if !mo.ends_turn(ma) {
            continue;
        }
        if let Some((rb, removed)) = mo.result_board(ma) {
            if !removed.is_empty() || rb == mo.turn_boards[0] {
                continue; // a position with less material cannot have occurred earlier
            }
            let take = match variant {
                0 => ma == MAction::Pass,
                1 => true,
                _ => {
                    k += 1;
                    k % 2 == 1
                }
            };
            if take && !out.contains(&(rb, !mo.gold_to_move)) {
                out.push((rb, !mo.gold_to_move));
            }
        }
    }
    out
}

/// Rebuilds a mid-turn play state through the public constructors with `extra` positions inserted
/// twice each at the *old* end of its repetition history (as if those positions had occurred twice
/// earlier in the game), and the same for the model. With `extra` empty the result must behave
/// exactly like the original (checked by the caller); that is what justifies treating the forks as
/// states a real game could be in. Not done after a capture in the current turn (the engine's history
/// starts afresh there, nothing older can recur) and never with positions of different material.
pub fn fork_with_history(eng: &GameState, mo: &Model, extra: &[(Board, bool)]) -> Option<(GameState, Model)> {
    use arimaa_engine_step::{List, Phase, PieceBoard, PlayPhase, Zobrist};
    if mo.setup || (mo.captured_this_turn && !extra.is_empty()) {
        return None;
    }
    let r = guard(|| {
        let pp = eng.unwrap_play_phase();
        let side = eng.is_p1_turn_to_move();
        let step = eng.current_step();
        let prev: Vec<PieceBoard> = pp.previous_piece_boards().to_vec();
        if prev.len() != step || (pp.piece_trapped_this_turn() && !extra.is_empty()) {
            return None;
        }
        let start_board = if step == 0 { eng.piece_board() } else { prev[0].piece_board() };
        let init = Zobrist::from_piece_board(start_board, side, 0);
        let hash = Zobrist::from_piece_board(eng.piece_board(), side, step);
        let mut old: Vec<Zobrist> = pp.hash_history().iter().cloned().collect();
        old.reverse();
        let mut list = List::new();
        for (b, g) in extra.iter() {
            let z = Zobrist::from_piece_board(crate::props::piece_board_of(b).piece_board(), *g, 0);
            list = list.append(z).append(z);
        }
        for z in old {
            list = list.append(z);
        }
        let pbs = eng.piece_board();
        let pb = PieceBoard::new(pbs.p1_pieces, pbs.elephants, pbs.camels, pbs.horses, pbs.dogs, pbs.cats, pbs.rabbits);
        let phase = Phase::PlayPhase(PlayPhase::new(init, list, prev, pp.push_pull_state(), pp.piece_trapped_this_turn()));
        Some(GameState::new(side, eng.move_number(), phase, pb, hash))
    });
    let feng = match r {
        Ok(Some(g)) => g,
        _ => return None,
    };
    let mut fm = mo.clone();
    {
        let h = std::sync::Arc::make_mut(&mut fm.history);
        for (b, g) in extra.iter() {
            h.list.insert(0, (*b, *g));
            h.list.insert(0, (*b, *g));
            *h.counts.entry((*b, *g)).or_insert(0) += 2;
        }
    }
    Some((feng, fm))
}

/// Observes the forks of one state. Err = (failure, variant).
pub fn observe_forks(eng: &GameState, mo: &Model, variants: &[u8], obs: &mut dyn Obs, st: &mut Stats) -> Result<(), (Fail, u8)> {
    if mo.setup {
        return Ok(());
    }
    if variants == [VARIANT_LOCKSTEP] {
        return lockstep_probe(eng, mo, obs, st).map_err(|f| (f, VARIANT_LOCKSTEP));
    }
    if variants == [VARIANT_SPARSE] {
        return sparse_probe(eng, mo, obs, st).map_err(|f| (f, VARIANT_SPARSE));
    }
    if variants == [VARIANT_LOOKALIKE] {
        return lockstep_lookalike_probe(eng, mo, obs, st).map_err(|f| (f, VARIANT_LOOKALIKE));
    }
    if variants == [VARIANT_SIBLINGS] {
        return rebuilt_siblings_probe(eng, mo, obs, st).map_err(|f| (f, VARIANT_SIBLINGS));
    }
    if variants == [VARIANT_REBUILD] {
        // the rebuilt state itself is what the observer looks at: if the constructors do not preserve
        // behaviour, the observer's own clauses say how
        if let Some((e0, m0)) = fork_with_history(eng, mo, &[]) {
            st.bump("rebuilt_state_observed");
            let v = View::new(&e0, &m0, true);
            obs.on_state(&v, st).map_err(|f| (Fail::new(&f.clause, format!("(on this state rebuilt through GameState::new / PlayPhase::new) {}", f.detail)), VARIANT_REBUILD))?;
        }
        return Ok(());
    }
    if mo.captured_this_turn {
        return Ok(());
    }
    // faithfulness of the reconstruction: with nothing injected the rebuilt state must be
    // indistinguishable from the original
    let (e0, _) = match fork_with_history(eng, mo, &[]) {
        Some(x) => x,
        None => {
            st.bump("fork_not_built");
            return Ok(());
        }
    };
    let same = guard(|| {
        e0.valid_actions() == eng.valid_actions()
            && e0.valid_actions_no_rep() == eng.valid_actions_no_rep()
            && e0.transposition_hash() == eng.transposition_hash()
            && e0.is_terminal() == eng.is_terminal()
            && e0.can_pass(true) == eng.can_pass(true)
            && e0.can_pass(false) == eng.can_pass(false)
    });
    if same != Ok(true) {
        st.bump("fork_skipped_reconstruction_differs");
        return Ok(());
    }
    let vanr = match guard(|| eng.valid_actions_no_rep()) {
        Ok(l) => l,
        Err(_) => return Ok(()),
    };
    for &variant in variants {
        // variant 3 belongs to the start of a turn, the others to the middle of one
        if (variant == 3) != (mo.step == 0) {
            continue;
        }
        if variant == 4 || variant == 5 {
            // two histories of the same length that end in the same position but repeat different earlier
            // positions (every second target vs. the others): the first is only asked, the second is
            // observed right afterwards - two games that went different ways to the same place
            let all = fork_targets(mo, &vanr, 1);
            let mut odd: Vec<(Board, bool)> = all.iter().step_by(2).cloned().collect();
            let mut even: Vec<(Board, bool)> = all.iter().skip(1).step_by(2).cloned().collect();
            let n = odd.len().min(even.len());
            if n == 0 {
                continue;
            }
            odd.truncate(n);
            even.truncate(n);
            let (first, second) = if variant == 4 { (odd, even) } else { (even, odd) };
            if let (Some((ae, _)), Some((be, bm))) = (fork_with_history(eng, mo, &first), fork_with_history(eng, mo, &second)) {
                let _ = guard(|| {
                    let _ = ae.valid_actions();
                    let _ = ae.is_terminal();
                    let _ = ae.can_pass(true);
                });
                st.bump("fork_pair_same_length_observed");
                let v = View::new(&be, &bm, true);
                obs.on_state(&v, st).map_err(|f| (f, variant))?;
            }
            continue;
        }
        let extra = fork_targets(mo, &vanr, variant);
        if extra.is_empty() {
            continue;
        }
        if let Some((fe, fm)) = fork_with_history(eng, mo, &extra) {
            st.bump(&format!("fork_variant{}_observed", variant));
            let v = View::new(&fe, &fm, true);
            obs.on_state(&v, st).map_err(|f| (f, variant))?;
        }
    }
    Ok(())
}


/// Rebuilt-siblings probe (turn starts). Pairs of states reached by different first steps of the turn are
/// both rebuilt through `GameState::new` / `PlayPhase::new` (what a client does that stores positions
/// compactly and restores them), then the same further step is made from each, one right after the other,
/// and both results are observed.
pub fn rebuilt_siblings_probe(eng: &GameState, mo: &Model, obs: &mut dyn Obs, st: &mut Stats) -> Check {
    if mo.setup || mo.step != 0 {
        return Ok(());
    }
    if mo.result_at_turn_start().is_some() {
        return Ok(());
    }
    let offered = match guard(|| eng.valid_actions()) {
        Ok(l) => l,
        Err(_) => return Ok(()),
    };
    let legal = mo.offered_norep();
    let quiet: Vec<Action> = offered.iter().copied().filter(|a| matches!(a, Action::Move(..)) && legal.contains(&to_maction(a)) && !mo.ends_turn(to_maction(a))).collect();
    let mut pairs = 0;
    for i in 0..quiet.len() {
        let j = (i * 5 + 3) % quiet.len();
        if i == j || pairs >= 6 {
            continue;
        }
        let (ai, aj) = (quiet[i], quiet[j]);
        let (mut ma, mut mb) = (mo.clone(), mo.clone());
        if ma.apply(to_maction(&ai)).is_err() || mb.apply(to_maction(&aj)).is_err() {
            continue;
        }
        let built = guard(|| (eng.take_action(&ai), eng.take_action(&aj)));
        let (ea, eb) = match built {
            Ok(x) => x,
            Err(_) => continue,
        };
        let ma_before_status_none = ma.status == m::Status::None && !ma.captured_this_turn;
        let mb_before_status_none = mb.status == m::Status::None && !mb.captured_this_turn;
        let (ra, rb) = match (fork_with_history(&ea, &ma, &[]), fork_with_history(&eb, &mb, &[])) {
            (Some(a), Some(b)) => (a.0, b.0),
            _ => continue,
        };
        // a common further step that stays inside the turn
        let xs: Vec<MAction> = ma.offered().intersection(&mb.offered()).copied().filter(|x| matches!(x, MAction::Step { .. }) && !ma.ends_turn(*x) && !mb.ends_turn(*x)).collect();
        if xs.is_empty() {
            continue;
        }
        let x = xs[(fp_combine(mo.fingerprint(), i as u64) % xs.len() as u64) as usize];
        let xa = to_action(x);
        let kids = guard(|| {
            let ca = ra.take_action(&xa);
            let cb = rb.take_action(&xa);
            (ca, cb)
        });
        let (ca, cb) = match kids {
            Ok(k) => k,
            Err(_) => continue,
        };
        if ma.apply(x).is_err() || mb.apply(x).is_err() {
            continue;
        }
        // when both first steps left nothing pending and captured nothing, the two siblings have the very
        // same play phase: the second sibling built around a *clone of the first one's play phase* (taken
        // after the first one has been stepped) and its own board is that sibling, too
        let mut extra: Option<GameState> = None;
        if ma_before_status_none && mb_before_status_none {
            let built = guard(|| {
                use arimaa_engine_step::{Phase, PieceBoard, Zobrist};
                let _ = ea.take_action(&xa);
                let phase = ea.unwrap_play_phase().clone();
                let pbs = eb.piece_board();
                let pb = PieceBoard::new(pbs.p1_pieces, pbs.elephants, pbs.camels, pbs.horses, pbs.dogs, pbs.cats, pbs.rabbits);
                let h = Zobrist::from_piece_board(pbs, eb.is_p1_turn_to_move(), eb.current_step());
                let twin = GameState::new(eb.is_p1_turn_to_move(), eb.move_number(), Phase::PlayPhase(phase), pb, h);
                if twin.transposition_hash() == eb.transposition_hash() && twin.valid_actions() == eb.valid_actions() {
                    Some(twin.take_action(&xa))
                } else {
                    None
                }
            });
            if let Ok(Some(t)) = built {
                extra = Some(t);
            }
        }
        pairs += 1;
        st.bump("rebuilt_sibling_pairs_advanced_back_to_back");
        if let Some(t) = extra.as_ref() {
            st.bump("siblings_built_around_a_clone_of_the_other_play_phase");
            obs.on_state(&View::new(t, &mb, true), st).map_err(|f| Fail::new(&f.clause, format!("(the state after {} built around a clone of the play phase of its sibling after {} - both steps left nothing pending and captured nothing, so the two play phases are the same - and then advanced by {}) {}", action_text(&aj), action_text(&ai), action_text(&xa), f.detail)))?;
        }
        for (e, mm, first) in [(&cb, &mb, aj), (&ca, &ma, ai)] {
            obs.on_state(&View::new(e, mm, true), st).map_err(|f| Fail::new(&f.clause, format!("(rebuilt siblings: the states after {} and after {} were both rebuilt through the constructors, then {} was played from each, one right after the other; this is the one below {}) {}", action_text(&ai), action_text(&aj), action_text(&xa), action_text(&first), f.detail)))?;
        }
    }
    Ok(())
}

/// Sparse-observation probe. The state has just been observed (all its queries asked). Side walks of one,
/// two and three offered actions are made below it in which the intermediate states are asked for
/// nothing but `valid_actions()` (needed to choose the next action), and only the last state is
/// observed: a client that looks closely at some states and merely passes through others.
pub fn sparse_probe(eng: &GameState, mo: &Model, obs: &mut dyn Obs, st: &mut Stats) -> Check {
    if mo.setup {
        return Ok(());
    }
    for len in 1..=3usize {
        let (mut e, mut m2) = (eng.clone(), mo.clone());
        let mut path: Vec<Action> = vec![];
        let mut ok = true;
        for k in 0..len {
            let offered = match guard(|| e.valid_actions()) {
                Ok(l) if !l.is_empty() => l,
                _ => {
                    ok = false;
                    break;
                }
            };
            // prefer staying inside the turn (steps), so that the walk ends in the middle of a turn
            let steps: Vec<Action> = offered.iter().copied().filter(|a| matches!(a, Action::Move(..)) && !m2.ends_turn(to_maction(a))).collect();
            let pool = if steps.is_empty() { &offered } else { &steps };
            let a = pool[(fp_combine(mo.fingerprint(), (len as u64) << 8 | k as u64) % pool.len() as u64) as usize];
            if m2.step == 0 && m2.result_at_turn_start().is_some() {
                ok = false; // nothing is played after the game is over
                break;
            }
            let n = match guard(|| e.take_action(&a)) {
                Ok(n) => n,
                Err(_) => {
                    ok = false;
                    break;
                }
            };
            if m2.apply(to_maction(&a)).is_err() {
                ok = false;
                break;
            }
            e = n;
            path.push(a);
        }
        if !ok || path.len() != len {
            continue;
        }
        st.bump("side_walks_with_unobserved_intermediate_states");
        obs.on_state(&View::new(&e, &m2, true), st).map_err(|f| Fail::new(&f.clause, format!("(after the side walk {} below the observed state, during which the intermediate states were asked for nothing but their action list) {}", actions_text(&path), f.detail)))?;
    }
    Ok(())
}

/// Lockstep with a look-alike game (turn starts): another game is started from the same squares and
/// colours with the piece types of each colour rotated; both games then make the same steps of the turn
/// alternately on this thread (only steps that are legal in both), each observed with its own model.
pub fn lockstep_lookalike_probe(eng: &GameState, mo: &Model, obs: &mut dyn Obs, st: &mut Stats) -> Check {
    if mo.setup || mo.step != 0 || mo.result_at_turn_start().is_some() {
        return Ok(());
    }
    let tb = match type_permuted_twin(&mo.board) {
        Some(t) => t,
        None => return Ok(()),
    };
    if !tb.traps_legal() || !tb.within_complement() || tb.rabbit_on_goal(true) || tb.rabbit_on_goal(false) {
        return Ok(());
    }
    let mut mb = Model::from_position(tb, mo.gold_to_move, mo.move_number);
    if mb.result_at_turn_start().is_some() {
        return Ok(());
    }
    let mut eb = match engine_from_position(&tb, mo.gold_to_move, mo.move_number) {
        Ok(e) => e,
        Err(_) => return Ok(()),
    };
    let (mut ea, mut ma) = (eng.clone(), mo.clone());
    st.bump("lockstep_lookalike_games_started");
    for depth in 1..=3usize {
        let oa = guard(|| ea.valid_actions()).unwrap_or_default();
        let ob = guard(|| eb.valid_actions()).unwrap_or_default();
        let common: Vec<Action> = oa
            .iter()
            .filter(|x| ob.contains(x) && matches!(x, Action::Move(..)) && ma.offered().contains(&to_maction(x)) && mb.offered().contains(&to_maction(x)) && !ma.ends_turn(to_maction(x)) && !mb.ends_turn(to_maction(x)))
            .cloned()
            .collect();
        if common.is_empty() {
            break;
        }
        let x = common[(fp_combine(mo.board.fingerprint(), 0x77 + depth as u64) % common.len() as u64) as usize];
        // the own game first, the look-alike right after it (and the other way round on the second step)
        let kids = guard(|| {
            if depth % 2 == 1 {
                let a = ea.take_action(&x);
                let b = eb.take_action(&x);
                (a, b)
            } else {
                let b = eb.take_action(&x);
                let a = ea.take_action(&x);
                (a, b)
            }
        });
        let (na, nb) = match kids {
            Ok(k) => k,
            Err(_) => return Ok(()),
        };
        if ma.apply(to_maction(&x)).is_err() || mb.apply(to_maction(&x)).is_err() {
            return Ok(());
        }
        ea = na;
        eb = nb;
        let ctx = |f: Fail, who: &str| Fail::new(&f.clause, format!("({} game, {} steps into a turn that a look-alike game - same squares and colours, other piece types: [{}] - played alongside on the same thread, step for step) {}", who, depth, board_text(&tb), f.detail));
        obs.on_state(&View::new(&eb, &mb, true), st).map_err(|f| ctx(f, "look-alike"))?;
        obs.on_state(&View::new(&ea, &ma, true), st).map_err(|f| ctx(f, "own"))?;
    }
    Ok(())
}

/// Lockstep probe. `eng` is a state after the first step of a turn. A twin game is started from another
/// legal turn-start position - the same board with the piece that has just moved standing on a different
/// neighbour of its destination - and makes the step that leads to the very same board. From there both
/// games make the same further steps of the turn alternately on this thread, and both are observed after
/// every step (two analyses of sibling positions interleaved by one client). Every state involved is
/// reached through offered actions from a legal start, so everything the observer demands applies.
pub fn lockstep_probe(eng: &GameState, mo: &Model, obs: &mut dyn Obs, st: &mut Stats) -> Check {
    if mo.setup || mo.step != 1 || mo.captured_this_turn || mo.turn_boards.is_empty() {
        return Ok(());
    }
    let t0 = mo.turn_boards[0];
    let emptied: Vec<u8> = (0..64u8).filter(|&q| t0.at(q) != m::EMPTY && mo.board.at(q) == m::EMPTY).collect();
    let filled: Vec<u8> = (0..64u8).filter(|&q| t0.at(q) == m::EMPTY && mo.board.at(q) != m::EMPTY).collect();
    if emptied.len() != 1 || filled.len() != 1 {
        return Ok(());
    }
    let (s, t) = (emptied[0], filled[0]);
    let piece = mo.board.at(t);
    for dir in 0..4u8 {
        // the twin's origin s2: a neighbour of t other than s that is empty now
        let s2 = match m::neighbour(t, dir) {
            Some(q) if q != s && mo.board.at(q) == m::EMPTY => q,
            _ => continue,
        };
        let mut b0 = mo.board;
        b0.0[t as usize] = m::EMPTY;
        b0.0[s2 as usize] = piece;
        if !b0.traps_legal() || !b0.within_complement() {
            continue;
        }
        let mb0 = Model::from_position(b0, mo.gold_to_move, mo.move_number);
        if mb0.result_at_turn_start().is_some() {
            continue;
        }
        let first = MAction::Step { from: s2, dir: m::opposite(dir) };
        if !mb0.offered().contains(&first) {
            continue;
        }
        let eb0 = match engine_from_position(&b0, mo.gold_to_move, mo.move_number) {
            Ok(e) => e,
            Err(_) => continue,
        };
        let mut mb = mb0.clone();
        if mb.apply(first).is_err() || mb.board != mo.board {
            continue;
        }
        let fa = to_action(first);
        let offered_first = guard(|| eb0.valid_actions()).unwrap_or_default();
        if !offered_first.contains(&fa) {
            continue; // the twin's first step is not offered (another property's business)
        }
        let mut eb = match guard(|| eb0.take_action(&fa)) {
            Ok(e) => e,
            Err(_) => continue,
        };
        let (mut ea, mut ma) = (eng.clone(), mo.clone());
        st.bump("lockstep_twin_games_started");
        let ctx = |f: Fail, who: &str, depth: usize| Fail::new(&f.clause, format!("({} game, {} further steps after a twin game that started from [{}] and the game itself were brought to the same board and advanced alternately) {}", who, depth, board_text(&b0), f.detail));
        for depth in 1..=2usize {
            let oa = guard(|| ea.valid_actions()).unwrap_or_default();
            let ob = guard(|| eb.valid_actions()).unwrap_or_default();
            let common: Vec<Action> = oa.iter().filter(|x| ob.contains(x) && matches!(x, Action::Move(..)) && ma.offered().contains(&to_maction(x)) && mb.offered().contains(&to_maction(x))).cloned().collect();
            if common.is_empty() {
                break;
            }
            let x = common[(fp_combine(mo.board.fingerprint(), (depth as u64) << 8 | dir as u64) % common.len() as u64) as usize];
            // the twin first on the first further step, the game itself first on the second
            let order: [bool; 2] = if depth == 1 { [false, true] } else { [true, false] };
            let mut na = None;
            let mut nb = None;
            for &is_a in order.iter() {
                if is_a {
                    na = guard(|| ea.take_action(&x)).ok();
                } else {
                    nb = guard(|| eb.take_action(&x)).ok();
                }
            }
            let (na, nb) = match (na, nb) {
                (Some(a), Some(b)) => (a, b),
                _ => return Ok(()),
            };
            if ma.apply(to_maction(&x)).is_err() || mb.apply(to_maction(&x)).is_err() {
                return Ok(());
            }
            ea = na;
            eb = nb;
            st.bump("lockstep_states_observed");
            obs.on_state(&View::new(&ea, &ma, true), st).map_err(|f| ctx(f, "own", depth))?;
            obs.on_state(&View::new(&eb, &mb, true), st).map_err(|f| ctx(f, "twin", depth))?;
        }
        return Ok(());
    }
    Ok(())
}

/// The same squares and colours with the piece types of each colour rotated by one piece.
pub fn type_permuted_twin(b: &Board) -> Option<Board> {
    let mut t = *b;
    for gold in [true, false] {
        let sqs: Vec<u8> = (0..64u8).filter(|&s| b.at(s) != m::EMPTY && m::is_gold(b.at(s)) == gold).collect();
        if sqs.len() < 2 {
            continue;
        }
        for (i, &s) in sqs.iter().enumerate() {
            let from = sqs[(i + 1) % sqs.len()];
            t.0[s as usize] = m::mk(gold, m::kind(b.at(from)));
        }
    }
    if t == *b {
        None
    } else {
        Some(t)
    }
}

/// Interference probe (see WalkOpts::interfere). Everything is guarded; results are ignored.
/// Kinds of look-alike: 0 type-permuted twin, 1 other side to move, 2 other step, 3 all owners exchanged,
/// 4 one piece with the other owner.
pub fn interfere_with(eng: &GameState, mo: &Model, which: u8) {
    if mo.setup {
        return;
    }
    let own_actions = guard(|| eng.valid_actions_no_rep()).unwrap_or_default();
    // the state's own has_move with the board of an earlier step, then something unrelated, so that
    // whatever was remembered about this state is displaced before the look-alike is asked
    let _ = guard(|| {
        if eng.is_play_phase() && eng.current_step() > 0 {
            let _ = eng.has_move(eng.piece_board_for_step(0));
        }
    });
    let _ = guard(|| {
        let mut e = Board::empty();
        e.0[9] = m::mk(false, m::R);
        e.0[49] = m::mk(true, m::R);
        e.0[(10 + (mo.board.fingerprint() % 40)) as usize] = m::mk(mo.gold_to_move, m::D);
        if let Ok(x) = engine_from_position(&e, !mo.gold_to_move, 3) {
            let _ = x.valid_actions();
            let _ = x.is_terminal();
            for a in x.valid_actions_no_rep().iter().take(4) {
                let _ = x.trapped_animal_for_action(a);
            }
        }
    });
    // the look-alike asked last decides which kind of shortened key would now be stale
    match which % 5 {
        3 | 4 => {
            // the same squares and piece types with the owners changed: all of them (3) or one piece (4)
            let mut t = mo.board;
            let occupied: Vec<u8> = (0..64u8).filter(|&q| t.at(q) != m::EMPTY).collect();
            if occupied.is_empty() {
                return;
            }
            if which % 5 == 3 {
                for &q in occupied.iter() {
                    t.0[q as usize] = m::mk(!m::is_gold(t.at(q)), m::kind(t.at(q)));
                }
            } else {
                let q = occupied[(mo.board.fingerprint() % occupied.len() as u64) as usize];
                t.0[q as usize] = m::mk(!m::is_gold(t.at(q)), m::kind(t.at(q)));
            }
            let _ = guard(|| {
                if let Ok(o) = engine_from_position(&t, mo.gold_to_move, mo.move_number) {
                    let _ = o.valid_actions();
                    let _ = o.valid_actions_no_rep();
                    let _ = o.is_terminal();
                    let _ = o.can_pass(true);
                    let _ = o.transposition_hash();
                    let _ = o.to_string();
                    for a in own_actions.iter() {
                        if let Action::Move(sq, _) = a {
                            if o.piece_board().piece_type_at_square(sq).is_some() {
                                let _ = o.trapped_animal_for_action(a);
                            }
                        }
                    }
                    for a in o.valid_actions_no_rep().iter().take(24) {
                        let _ = o.trapped_animal_for_action(a);
                        let _ = o.take_action(a);
                    }
                    let _ = eng.has_move(o.piece_board());
                }
            });
        }
        1 => {
            // the same board with the other side to move
            let _ = guard(|| {
                if let Ok(o) = engine_from_position(&mo.board, !mo.gold_to_move, 9) {
                    let _ = o.valid_actions();
                    let _ = o.valid_actions_no_rep();
                    let _ = o.is_terminal();
                    let _ = o.transposition_hash();
                    for a in own_actions.iter() {
                        if let Action::Move(..) = a {
                            let _ = o.trapped_animal_for_action(a);
                        }
                    }
                }
            });
        }
        2 => {
            // the same board and side at another step of the turn
            let _ = guard(|| {
                let other_step = crate::special::build_state(&mo.board, mo.gold_to_move, (mo.step + 1) % 4, arimaa_engine_step::PushPullState::None);
                let _ = other_step.valid_actions();
                let _ = other_step.valid_actions_no_rep();
                let _ = other_step.is_terminal();
                let _ = other_step.can_pass(true);
                let _ = other_step.transposition_hash();
                for a in other_step.valid_actions_no_rep().iter().take(30) {
                    let _ = other_step.trapped_animal_for_action(a);
                }
            });
        }
        _ => {
            // a type-permuted twin: same squares, same colours, other piece types
            let twin = match type_permuted_twin(&mo.board) {
                Some(t) => t,
                None => return,
            };
            let t = match engine_from_position(&twin, mo.gold_to_move, 7) {
                Ok(t) => t,
                Err(_) => return,
            };
            let _ = guard(|| {
                let _ = t.valid_actions();
                let _ = t.valid_actions_no_rep();
                let _ = t.is_terminal();
                let _ = t.has_move(t.piece_board());
                let _ = t.can_pass(true);
                let _ = t.transposition_hash();
                for a in own_actions.iter() {
                    if let Action::Move(sq, _) = a {
                        if t.piece_board().piece_type_at_square(sq).is_some() {
                            let _ = t.trapped_animal_for_action(a);
                        }
                    }
                }
                for a in t.valid_actions_no_rep().iter().take(40) {
                    let _ = t.trapped_animal_for_action(a);
                    let _ = t.take_action(a);
                }
            });
            // the state's own has_move with the twin's board, asked last
            let _ = guard(|| {
                let _ = eng.has_move(t.piece_board());
            });
        }
    }
}

pub struct WalkEnd {
    pub steps: usize,
    pub ended_by: &'static str,
}

/// Runs one case. `src` is either the generated selectors or an explicit action list (replay).
pub fn walk(
    start: &Start,
    src: Source,
    aux: u64,
    opts: &WalkOpts,
    obs: &mut dyn Obs,
    st: &mut Stats,
) -> Result<(WalkEnd, Trace), WalkFail> {
    let mut trace = Trace::default();
    let (mut eng, mut mo) = match start_states(start) {
        Ok(x) => x,
        Err(e) => {
            return Err(WalkFail { fail: Fail::new("harness:start", e), trace, inconclusive: true })
        }
    };
    let mut mem = Memory::default();
    let wf = |fail: Fail, trace: &Trace| WalkFail { fail, trace: trace.clone(), inconclusive: false };
    {
        let v = View::new(&eng, &mo, false);
        obs.on_start(start, &v, st).map_err(|f| wf(f, &trace))?;
    }
    let mut i = 0usize;
    let mut nodes_used = 0usize;
    let mut after_result = 0usize;
    let ended_by;
    loop {
        let v = View::new(&eng, &mo, false);
        obs.on_state(&v, st).map_err(|f| wf(f, &trace))?;
        mem.seen.insert(mo.board);
        if opts.interfere && !mo.setup && (fp_combine(aux, i as u64 ^ 0x1f1f) & 3) == 0 {
            interfere_with(&eng, &mo, [0u8, 0, 1, 2, 3, 4, 0, 3][((fp_combine(aux, i as u64 ^ 0x2e2e) >> 3) & 7) as usize]);
            st.bump("states_observed_again_after_interference");
            // observed twice: first the object that was already queried (right after the twin), then a
            // fresh object of the same state (rebuilt through the constructors) whose very first query is
            // has_move with a foreign board
            let v2 = View::new(&eng, &mo, false);
            if let Err(f) = obs.on_state(&v2, st) {
                let mut t = trace.clone();
                t.fork = Some(VARIANT_INTERFERE);
                return Err(WalkFail { fail: Fail::new(&f.clause, format!("(observed again right after a type-permuted twin of the position was queried and has_move was called with foreign boards) {}", f.detail)), trace: t, inconclusive: false });
            }
            // a plain clone must behave like the original
            if let Ok(cl) = guard(|| eng.clone()) {
                let v4 = View::new(&cl, &mo, false);
                if let Err(f) = obs.on_state(&v4, st) {
                    let mut t = trace.clone();
                    t.fork = Some(VARIANT_INTERFERE);
                    return Err(WalkFail { fail: Fail::new(&f.clause, format!("(on a clone of this state) {}", f.detail)), trace: t, inconclusive: false });
                }
            }
            let fresh = fork_with_history(&eng, &mo, &[]).map(|x| x.0);
            if let Some(fr) = fresh.as_ref() {
                let _ = guard(|| {
                    let empty = arimaa_engine_step::PieceBoard::initial();
                    let _ = fr.has_move(empty.piece_board());
                });
                let v3 = View::new(fr, &mo, false);
                if let Err(f) = obs.on_state(&v3, st) {
                    let mut t = trace.clone();
                    t.fork = Some(VARIANT_INTERFERE);
                    return Err(WalkFail { fail: Fail::new(&f.clause, format!("(a fresh object of this state, rebuilt through the constructors, first asked has_move with an empty board) {}", f.detail)), trace: t, inconclusive: false });
                }
            }
            // another fresh object whose queries are first asked in another order
            if let Some((fr2, _)) = fork_with_history(&eng, &mo, &[]) {
                let order = (fp_combine(aux, i as u64 ^ 0x3d3d) % 64) as u8;
                let v5 = View::new(&fr2, &mo, false);
                v5.prequery(order);
                st.bump("fresh_objects_queried_in_another_order");
                if let Err(f) = obs.on_state(&v5, st) {
                    let mut t = trace.clone();
                    t.fork = Some(VARIANT_INTERFERE);
                    return Err(WalkFail { fail: Fail::new(&f.clause, format!("(a fresh object of this state whose public queries were first asked in order number {}) {}", order, f.detail)), trace: t, inconclusive: false });
                }
            }
        }
        if opts.interfere && !mo.setup && (fp_combine(aux, i as u64 ^ 0x4c4c) & 1) == 0 {
            if let Err((f, variant)) = observe_forks(&eng, &mo, &[VARIANT_SPARSE], obs, st) {
                let mut t = trace.clone();
                t.fork = Some(variant);
                return Err(WalkFail { fail: f, trace: t, inconclusive: false });
            }
        }
        if opts.interfere && !mo.setup && mo.step == 0 && (fp_combine(aux, i as u64 ^ 0x5b5b) & 1) == 0 {
            if let Err((f, variant)) = observe_forks(&eng, &mo, &[VARIANT_SIBLINGS], obs, st) {
                let mut t = trace.clone();
                t.fork = Some(variant);
                return Err(WalkFail { fail: f, trace: t, inconclusive: false });
            }
        }
        if opts.interfere && !mo.setup && mo.step == 0 && (fp_combine(aux, i as u64 ^ 0x6a6a) & 1) == 1 {
            if let Err((f, variant)) = observe_forks(&eng, &mo, &[VARIANT_LOOKALIKE], obs, st) {
                let mut t = trace.clone();
                t.fork = Some(variant);
                return Err(WalkFail { fail: f, trace: t, inconclusive: false });
            }
        }
        if opts.interfere && !mo.setup && mo.step == 1 {
            if let Err((f, variant)) = observe_forks(&eng, &mo, &[VARIANT_LOCKSTEP], obs, st) {
                let mut t = trace.clone();
                t.fork = Some(variant);
                return Err(WalkFail { fail: f, trace: t, inconclusive: false });
            }
        }
        if opts.inject == Inject::Rebuild {
            if let Err((f, variant)) = observe_forks(&eng, &mo, &[VARIANT_REBUILD], obs, st) {
                let mut t = trace.clone();
                t.fork = Some(variant);
                return Err(WalkFail { fail: f, trace: t, inconclusive: false });
            }
        }
        if opts.inject == Inject::Auto {
            if let Err((f, variant)) = observe_forks(&eng, &mo, &[0, 1, 2, 3, 4, 5], obs, st) {
                let mut t = trace.clone();
                t.fork = Some(variant);
                return Err(WalkFail { fail: Fail::new(&f.clause, format!("(on a fork of this state whose history holds the result of some turn-ending actions twice, variant {}) {}", variant, f.detail)), trace: t, inconclusive: false });
            }
        }
        // ---- expansion of the turn tree at (some) turn starts
        if let Some(ex) = opts.expand {
            if !mo.setup && mo.step == 0 && nodes_used < ex.max_nodes {
                let draw = (fp_combine(aux, i as u64 ^ 0xabcdef) & 0xff) as u8;
                if i == 0 || draw < ex.rate {
                    let mut x = Expander { rebuild: opts.inject == Inject::Rebuild, opts: ex, nodes: nodes_used, obs, aux: fp_combine(aux, i as u64) };
                    let mut path = vec![];
                    let r = x.expand(&eng, &mo, 0, &mut path, st, true);
                    nodes_used = x.nodes;
                    if let Err((f, p)) = r {
                        let mut t = trace.clone();
                        t.branch = p;
                        if f.detail.starts_with("(on this state rebuilt") {
                            t.fork = Some(VARIANT_REBUILD);
                        }
                        if f.detail.starts_with("(state expanded right after its transposed twin)") {
                            t.fork = Some(VARIANT_TWIN);
                        }
                        if f.detail.starts_with("(rebuilt siblings:") {
                            t.fork = Some(VARIANT_SIBLINGS);
                            t.branch = vec![];
                        }
                        return Err(WalkFail { fail: f, trace: t, inconclusive: false });
                    }
                }
            }
        }
        // ---- steering: stop at a reported result / empty list / end of input
        match v.terminal() {
            Ok(Some(_)) => {
                if opts.play_on && after_result < 12 {
                    after_result += 1;
                    st.bump("actions_taken_after_a_reported_result");
                } else {
                    ended_by = "result";
                    break;
                }
            }
            Ok(None) => {}
            Err(_) => {
                st.bump("walks_cut_short_by_engine_panic");
                ended_by = "panic";
                break;
            }
        }
        let offered = match if opts.follow_norep { v.vanr() } else { v.va() } {
            Ok(l) => l.clone(),
            Err(_) => {
                st.bump("walks_cut_short_by_engine_panic");
                ended_by = "panic";
                break;
            }
        };
        if offered.is_empty() {
            ended_by = "no_action";
            break;
        }
        let a = match &src {
            Source::Ops(ops) => {
                if i >= ops.len() {
                    ended_by = "input";
                    break;
                }
                let (sel, bias) = ops[i];
                offered[choose(&offered, &mo, sel, bias, opts.profile, &mem)]
            }
            Source::Explicit(list) => {
                if i >= list.len() {
                    ended_by = "input";
                    break;
                }
                let a = list[i];
                if !offered.contains(&a) {
                    // the replayed action is no longer offered (e.g. the defect was fixed)
                    ended_by = "replay_action_not_offered";
                    break;
                }
                a
            }
        };
        let ma = to_maction(&a);
        let model_legal = mo.offered_norep().contains(&ma);
        let next = match guard(|| eng.take_action(&a)) {
            Ok(n) => n,
            Err(_) => {
                st.bump("walks_cut_short_by_engine_panic");
                ended_by = "panic";
                break;
            }
        };
        let mut nm = mo.clone();
        let removed = match nm.apply(ma) {
            Ok(r) => r,
            Err(_) => {
                st.bump("walks_cut_short_model_cannot_apply");
                ended_by = "model_inapplicable";
                break;
            }
        };
        trace.actions.push(a);
        mem.record(&mo, ma);
        {
            let e = Edge {
                before: &v,
                action: &a,
                maction: ma,
                after_eng: &next,
                after_m: &nm,
                removed: &removed,
                model_legal,
            };
            obs.on_edge(&e, st).map_err(|f| wf(f, &trace))?;
        }
        drop(v);
        eng = next;
        mo = nm;
        i += 1;
    }
    if opts.inject == Inject::AtEnd(VARIANT_INTERFERE) {
        let fail_with = |f: Fail, trace: &Trace| {
            let mut t = trace.clone();
            t.fork = Some(VARIANT_INTERFERE);
            WalkFail { fail: f, trace: t, inconclusive: false }
        };
        for which in 0..5u8 {
            interfere_with(&eng, &mo, which);
            let v2 = View::new(&eng, &mo, false);
            obs.on_state(&v2, st).map_err(|f| fail_with(f, &trace))?;
        }
        if let Ok(cl) = guard(|| eng.clone()) {
            let v4 = View::new(&cl, &mo, false);
            obs.on_state(&v4, st).map_err(|f| fail_with(f, &trace))?;
        }
        if let Some((fr, _)) = fork_with_history(&eng, &mo, &[]) {
            let _ = guard(|| {
                let empty = arimaa_engine_step::PieceBoard::initial();
                let _ = fr.has_move(empty.piece_board());
            });
            let v3 = View::new(&fr, &mo, false);
            obs.on_state(&v3, st).map_err(|f| fail_with(f, &trace))?;
        }
        for order in 0..64u8 {
            if let Some((fr2, _)) = fork_with_history(&eng, &mo, &[]) {
                let v5 = View::new(&fr2, &mo, false);
                v5.prequery(order);
                obs.on_state(&v5, st).map_err(|f| fail_with(Fail::new(&f.clause, format!("(a fresh object of this state whose public queries were first asked in order number {}) {}", order, f.detail)), &trace))?;
            }
        }
    } else if let Inject::AtEnd(variant) = opts.inject {
        if let Err((f, variant)) = observe_forks(&eng, &mo, &[variant], obs, st) {
            let mut t = trace.clone();
            t.fork = Some(variant);
            return Err(WalkFail { fail: f, trace: t, inconclusive: false });
        }
    }
    {
        let v = View::new(&eng, &mo, false);
        obs.on_end(&v, st).map_err(|f| wf(f, &trace))?;
    }
    st.bump(&format!("walk_ended_by_{}", ended_by));
    Ok((WalkEnd { steps: i, ended_by }, trace))
}

pub fn run_case(case: &Case, opts: &WalkOpts, obs: &mut dyn Obs, st: &mut Stats) -> Result<(WalkEnd, Trace), WalkFail> {
    walk(&case.start, Source::Ops(&case.ops), case.aux, opts, obs, st)
}

pub fn start_json(start: &Start) -> Value {
    match start {
        Start::Setup => json!({"kind": "setup"}),
        Start::Pos(p) => json!({
            "kind": "diagram",
            "gold_to_move": p.gold_to_move,
            "move_number": p.move_number,
            "pieces": board_text(&p.board),
            "notation": p.notation,
            "text": p.board.diagram_styled(p.move_number, p.gold_to_move, p.notation),
        }),
    }
}

pub fn start_from_json(v: &Value) -> Result<Start, String> {
    match v["kind"].as_str() {
        Some("setup") => Ok(Start::Setup),
        Some("diagram") => {
            let mut b = Board::empty();
            for tok in v["pieces"].as_str().ok_or("pieces")?.split_whitespace() {
                let cs: Vec<char> = tok.chars().collect();
                if cs.len() != 3 {
                    return Err(format!("bad piece token {}", tok));
                }
                let k = match cs[0].to_ascii_lowercase() {
                    'r' => m::R,
                    'c' => m::C,
                    'd' => m::D,
                    'h' => m::H,
                    'm' => m::M,
                    'e' => m::E,
                    _ => return Err(format!("bad piece {}", tok)),
                };
                let f = cs[1] as u8 - b'a';
                let r = cs[2] as u8 - b'0';
                let sq = (8 - r) * 8 + f;
                b.0[sq as usize] = m::mk(cs[0].is_uppercase(), k);
            }
            Ok(Start::Pos(PosSpec {
                board: b,
                gold_to_move: v["gold_to_move"].as_bool().ok_or("gold_to_move")?,
                move_number: v["move_number"].as_u64().ok_or("move_number")? as usize,
                notation: v["notation"].as_u64().unwrap_or(0) as u8,
            }))
        }
        _ => Err("unknown start kind".into()),
    }
}

pub fn parse_action_text(s: &str) -> Result<Action, String> {
    // independent of the engine's parser
    let cs: Vec<char> = s.chars().collect();
    if s == "p" {
        return Ok(Action::Pass);
    }
    if cs.len() == 1 {
        let k = match cs[0] {
            'r' => m::R,
            'c' => m::C,
            'd' => m::D,
            'h' => m::H,
            'm' => m::M,
            'e' => m::E,
            _ => return Err(format!("bad action {}", s)),
        };
        return Ok(to_action(MAction::Place(k)));
    }
    if cs.len() == 3 {
        let f = (cs[0] as u32).wrapping_sub('a' as u32);
        let r = (cs[1] as u32).wrapping_sub('0' as u32);
        let d = m::DIR_CHARS.iter().position(|&c| c == cs[2]);
        if f < 8 && (1..=8).contains(&r) && d.is_some() {
            let sq = (8 - r as u8) * 8 + f as u8;
            return Ok(to_action(MAction::Step { from: sq, dir: d.unwrap() as u8 }));
        }
    }
    Err(format!("bad action {}", s))
}
