//! C18 driver: compile-time probe (Send + Sync) and the generated concurrent-vs-sequential check,
//! which lives in its own binary because it cannot be compiled if the probe fails.

use crate::core::*;
use crate::runner::*;
use crate::special::*;
use serde_json::{json, Value};
use std::process::Command;

fn run_capture(mut c: Command) -> Result<(i32, String, String), String> {
    let out = c.output().map_err(|e| format!("cannot run {:?}: {}", c, e))?;
    Ok((out.status.code().unwrap_or(-1), String::from_utf8_lossy(&out.stdout).to_string(), String::from_utf8_lossy(&out.stderr).to_string()))
}

/// Returns Ok(None) if the probe compiles, Ok(Some(diagnostic)) if it fails with a Send/Sync error,
/// Err if it fails for another reason (inconclusive).
pub fn probe() -> Result<Option<String>, String> {
    let dir = harness_dir().join("c18_probe");
    let mut c = cargo_cmd(None);
    c.arg("build").arg("--quiet").arg("--manifest-path").arg(dir.join("Cargo.toml")).arg("--target-dir").arg(target_dir().join("probe"));
    for a in repo_override_args() {
        c.arg(a);
    }
    c.env("RUSTFLAGS", "-Awarnings");
    let (code, _out, err) = run_capture(c)?;
    if code == 0 {
        return Ok(None);
    }
    let sendsync = err.contains("E0277") && (err.contains("cannot be sent between threads safely") || err.contains("cannot be shared between threads safely"));
    let only_probe_failed = err.contains("could not compile `c18_probe`");
    if sendsync && only_probe_failed {
        let lines: Vec<&str> = err.lines().filter(|l| l.contains("error[E0277]") || l.contains("cannot be s") || l.contains("within `") || l.contains("required")).take(12).collect();
        Ok(Some(lines.join("\n")))
    } else {
        Err(format!("probe build failed for another reason:\n{}", err.lines().take(30).collect::<Vec<_>>().join("\n")))
    }
}

fn build_conc(tsan: bool) -> Result<std::path::PathBuf, String> {
    let mut c = if tsan { cargo_cmd(Some("+nightly")) } else { cargo_cmd(None) };
    let td = if tsan { target_dir().join("tsan") } else { target_dir() };
    c.current_dir(harness_dir());
    c.arg("build").arg("--quiet").arg("--release").arg("--bin").arg("c18_conc").arg("--target-dir").arg(&td);
    for a in repo_override_args() {
        c.arg(a);
    }
    if tsan {
        c.arg("-Zbuild-std").arg("--target").arg("x86_64-unknown-linux-gnu");
        c.env("RUSTFLAGS", "-Zsanitizer=thread -Awarnings");
    } else {
        c.env("RUSTFLAGS", "-Awarnings");
    }
    let (code, _o, err) = run_capture(c)?;
    if code != 0 {
        return Err(format!("building c18_conc{} failed:\n{}", if tsan { " (tsan)" } else { "" }, err.lines().rev().take(25).collect::<Vec<_>>().into_iter().rev().collect::<Vec<_>>().join("\n")));
    }
    Ok(if tsan { td.join("x86_64-unknown-linux-gnu/release/c18_conc") } else { td.join("release/c18_conc") })
}


/// Runs the racing-release scenario of c18_conc in a child process (a stack overflow is a fatal
/// signal). Ok(None) = survived, Ok(Some(msg)) = aborted with a stack overflow, Err = could not run.
pub fn longdrop(rounds: usize, len: usize) -> Result<Option<String>, String> {
    // dev profile on purpose (see src/bin/longdrop.rs)
    let mut b = cargo_cmd(None);
    b.current_dir(harness_dir());
    b.arg("build").arg("--quiet").arg("--bin").arg("longdrop").arg("--target-dir").arg(target_dir());
    for a in repo_override_args() {
        b.arg(a);
    }
    b.env("RUSTFLAGS", "-Awarnings");
    let (code, _o, err) = run_capture(b)?;
    if code != 0 {
        return Err(format!("building longdrop failed:\n{}", err.lines().rev().take(15).collect::<Vec<_>>().into_iter().rev().collect::<Vec<_>>().join("\n")));
    }
    let bin = target_dir().join("debug/longdrop");
    let mut c = Command::new(&bin);
    c.arg(rounds.to_string()).arg(len.to_string());
    c.env_remove("RUST_MIN_STACK");
    let out = c.output().map_err(|e| e.to_string())?;
    let so = String::from_utf8_lossy(&out.stdout).to_string();
    let se = String::from_utf8_lossy(&out.stderr).to_string();
    if out.status.success() && so.contains("LONGDROP ok") {
        return Ok(None);
    }
    use std::os::unix::process::ExitStatusExt;
    if se.contains("overflowed its stack") || se.contains("stack overflow") || matches!(out.status.signal(), Some(6) | Some(11) | Some(7)) {
        return Ok(Some(format!("two threads released the last two owners of a {}-entry history at the same time and the process aborted: {}", len, se.lines().take(3).collect::<Vec<_>>().join(" | "))));
    }
    Err(format!("longdrop child failed: status {:?} {}", out.status, se.lines().take(5).collect::<Vec<_>>().join(" | ")))
}


/// Cold-start scenario (see c18_conc firstuse): `count` fresh processes, each given a different state
/// (a generated game prefix, preferably ending with a push or pull pending). Returns the first
/// difference found.
pub fn cold_starts(cfg: &RunCfg, bin: &std::path::Path, count: usize, stats: &mut Stats) -> Result<Option<(String, Value)>, String> {
    use crate::drive::{Obs, Profile, WalkOpts};
    use crate::gen::{self, GameParams, Start};
    use proptest::strategy::{Strategy, ValueTree};
    use proptest::test_runner::TestRunner;
    struct Nop;
    impl Obs for Nop {}
    let mut runner = TestRunner::new(proptest_config(1, shard_seed(cfg.seed, "C18-cold", 0, 0)));
    let params = GameParams { max_ops: 30, w_setup: 0, w_pos: 4, w_small: 3, w_frozen: 0, hanging: false, w_motif: 2, w_open: 0 };
    let dir = target_dir().join("c18-cold");
    let _ = std::fs::create_dir_all(&dir);
    let mut jobs: Vec<(std::path::PathBuf, Value)> = vec![];
    let mut tries = 0;
    while jobs.len() < count && tries < count * 20 {
        tries += 1;
        let case = match gen::game(params).new_tree(&mut runner) {
            Ok(t) => t.current(),
            Err(_) => continue,
        };
        let p = match &case.start {
            Start::Pos(p) => p.clone(),
            _ => continue,
        };
        let mut st = Stats::default();
        st.frozen = true;
        let trace = match crate::drive::run_case(&case, &WalkOpts { profile: Profile::Fight, expand: None, follow_norep: false, inject: crate::drive::Inject::No, interfere: false, play_on: false }, &mut Nop, &mut st) {
            Ok((_, t)) => t.actions,
            Err(_) => continue,
        };
        // cut the game at the last state with a push or pull pending (replaying it on the model)
        let mut mo = crate::model::Model::from_position(p.board, p.gold_to_move, p.move_number);
        let mut best = 0usize;
        for (i, a) in trace.iter().enumerate() {
            if mo.apply(to_maction(a)).is_err() {
                break;
            }
            if mo.status != crate::model::Status::None {
                best = i + 1;
            }
        }
        if best == 0 {
            continue;
        }
        let j = json!({
            "diagram": p.board.diagram_styled(p.move_number, p.gold_to_move, p.notation),
            "actions": trace[..best].iter().map(action_text).collect::<Vec<_>>(),
            "threads": 8,
        });
        let path = dir.join(format!("case-{}.json", jobs.len()));
        std::fs::write(&path, serde_json::to_string(&j).unwrap()).map_err(|e| e.to_string())?;
        jobs.push((path, j));
    }
    // fresh processes, a few at a time
    let results: Vec<Result<Option<(String, Value)>, String>> = std::thread::scope(|sc| {
        let chunks: Vec<Vec<(std::path::PathBuf, Value)>> = jobs.chunks((jobs.len() / 4).max(1)).map(|c| c.to_vec()).collect();
        chunks
            .into_iter()
            .map(|chunk| {
                sc.spawn(move || -> Result<Option<(String, Value)>, String> {
                    for (path, j) in chunk {
                        let mut c = Command::new(bin);
                        c.arg("firstuse").arg(&path);
                        let out = c.output().map_err(|e| e.to_string())?;
                        match out.status.code() {
                            Some(0) => {}
                            Some(1) => return Ok(Some((String::from_utf8_lossy(&out.stdout).trim().to_string(), j))),
                            other => return Err(format!("cold-start child ended with {:?}: {}", other, String::from_utf8_lossy(&out.stderr).lines().take(3).collect::<Vec<_>>().join(" | "))),
                        }
                    }
                    Ok(None)
                })
            })
            .collect::<Vec<_>>()
            .into_iter()
            .map(|h| h.join().unwrap_or_else(|_| Err("cold-start thread panicked".into())))
            .collect()
    });
    stats.add("cold_start/fresh_processes", jobs.len() as u64);
    if !stats.frozen {
        stats.evaluations += jobs.len() as u64;
    }
    for r in results {
        match r {
            Ok(Some(x)) => return Ok(Some(x)),
            Err(e) => return Err(e),
            Ok(None) => {}
        }
    }
    Ok(None)
}

pub fn run_c18(cfg: &RunCfg, stats: &mut Stats, extra: &mut Value) -> Outcome {
    // ---- type-level half
    match probe() {
        Err(e) => return Outcome::Inconclusive(e),
        Ok(Some(diag)) => {
            let src = std::fs::read_to_string(harness_dir().join("c18_probe/src/lib.rs")).unwrap_or_default();
            let f = Fail::new("C18:send_sync", format!("a client that requires Send + Sync of the public types no longer compiles:\n{}", diag));
            return Outcome::Violation(Violation { replay: json!({"property": "C18", "kind": "probe", "clause": f.clause, "detail": f.detail, "probe_source": src}), fail: f });
        }
        Ok(None) => {
            stats.bump("probe_compiles_send_sync_for_13_public_types");
        }
    }
    // ---- generated half
    let bin = match build_conc(false) {
        Ok(b) => b,
        Err(e) => return Outcome::Inconclusive(e),
    };
    let (cases, shards) = if cfg.thorough { (6000u32, 8usize) } else { (200u32, 8usize) };
    let mut c = Command::new(&bin);
    c.arg("run").arg(cfg.seed.to_string()).arg(cases.to_string()).arg(shards.to_string());
    let (code, out, err) = match run_capture(c) {
        Ok(x) => x,
        Err(e) => return Outcome::Inconclusive(e),
    };
    if code == 3 {
        if let Some(line) = out.lines().find(|l| l.starts_with("DEADLOCK ")) {
            let v: Value = serde_json::from_str(&line[9..]).unwrap_or(Value::Null);
            let f = Fail::new("C18:deadlock", format!("concurrent expansion never finished ({}): all {} unfinished of {} worker threads sat asleep without using any CPU time for 25 s, so none of them can wake another any more, while the same work on one thread finishes", v["what"].as_str().unwrap_or("?"), v["blocked"], v["threads"]));
            return Outcome::Violation(Violation { replay: json!({"property": "C18", "kind": "concurrent", "clause": f.clause, "detail": f.detail, "case": v["case"], "seed": cfg.seed, "note": "schedule dependent: the replay re-runs the case up to 60 times"}), fail: f });
        }
    }
    if code != 0 {
        return Outcome::Inconclusive(format!("c18_conc exited with {}: {}", code, err.lines().take(10).collect::<Vec<_>>().join(" | ")));
    }
    let v: Value = match serde_json::from_str(out.trim()) {
        Ok(v) => v,
        Err(e) => return Outcome::Inconclusive(format!("c18_conc output unreadable: {}", e)),
    };
    if !stats.frozen {
        stats.evaluations += v["evaluations"].as_u64().unwrap_or(0);
    }
    for x in v["nontrivial"].as_array().cloned().unwrap_or_default() {
        if let Some(n) = x.as_u64() {
            stats.nontrivial(n);
        }
    }
    for (k, n) in v["counters"].as_object().cloned().unwrap_or_default() {
        stats.add(&format!("concurrent/{}", k), n.as_u64().unwrap_or(0));
    }
    for s in v["samples"].as_array().cloned().unwrap_or_default() {
        stats.sample(6, || s);
    }
    if !v["violation"].is_null() {
        let viol = &v["violation"];
        if viol.get("abort").is_some() {
            return Outcome::Inconclusive(format!("{}", viol));
        }
        let f = Fail::new("C18:transcript", viol["detail"].as_str().unwrap_or("").to_string());
        return Outcome::Violation(Violation { replay: json!({"property": "C18", "kind": "concurrent", "clause": f.clause, "detail": f.detail, "case": viol["case"], "seed": cfg.seed, "note": "schedule dependent: the replay re-runs the program up to 200 times"}), fail: f });
    }
    // ---- cold start under contention (one-shot-per-process races: lazily built tables, caches)
    match cold_starts(cfg, &bin, if cfg.thorough { 1500 } else { 160 }, stats) {
        Err(e) => return Outcome::Inconclusive(e),
        Ok(Some((msg, case))) => {
            let f = Fail::new("C18:cold_start", msg);
            return Outcome::Violation(Violation { replay: json!({"property": "C18", "kind": "cold_start", "clause": f.clause, "detail": f.detail, "case": case, "note": "schedule dependent: the replay starts up to 300 fresh processes"}), fail: f });
        }
        Ok(None) => {}
    }
    // ---- racing release of a long shared history
    let (rounds, len) = if cfg.thorough { (80_000usize, 30_000usize) } else { (6_000usize, 30_000usize) };
    match longdrop(rounds, len) {
        Err(e) => return Outcome::Inconclusive(e),
        Ok(Some(msg)) => {
            let f = Fail::new("C18:concurrent_release_aborts", msg);
            return Outcome::Violation(Violation { replay: json!({"property": "C18", "kind": "longdrop", "clause": f.clause, "detail": f.detail, "rounds": rounds * 2, "len": len}), fail: f });
        }
        Ok(None) => {
            stats.add("longdrop/racing_releases_of_a_30k_entry_history_dev_profile", rounds as u64);
            if !stats.frozen {
                stats.evaluations += rounds as u64;
            }
        }
    }
    // ---- sanitizer (thorough)
    if cfg.thorough {
        match build_conc(true) {
            Err(e) => {
                stats.bump("tsan_build_failed_skipped");
                *extra = json!({"tsan": format!("skipped: {}", e.lines().next().unwrap_or(""))});
            }
            Ok(tbin) => {
                let mut c = Command::new(&tbin);
                c.arg("run").arg(cfg.seed.to_string()).arg("25").arg("4");
                c.env("TSAN_OPTIONS", "halt_on_error=0 exitcode=66 report_signal_unsafe=0");
                match run_capture(c) {
                    Err(e) => return Outcome::Inconclusive(e),
                    Ok((code, out, err)) => {
                        if err.contains("WARNING: ThreadSanitizer: data race") {
                            let report: String = err.lines().skip_while(|l| !l.contains("WARNING: ThreadSanitizer")).take(40).collect::<Vec<_>>().join("\n");
                            // only races inside the engine crate count
                            if report.contains("arimaa_engine_step") {
                                let f = Fail::new("C18:data_race", format!("ThreadSanitizer reports a data race in the engine while states are expanded concurrently:\n{}", report));
                                return Outcome::Violation(Violation { replay: json!({"property": "C18", "kind": "tsan", "clause": f.clause, "detail": f.detail, "seed": cfg.seed}), fail: f });
                            }
                            stats.bump("tsan_report_outside_engine_ignored");
                        }
                        if code != 0 && code != 66 {
                            return Outcome::Inconclusive(format!("tsan build of c18_conc exited with {}", code));
                        }
                        let tv: Value = serde_json::from_str(out.trim()).unwrap_or(Value::Null);
                        stats.add("tsan/programs_run_under_thread_sanitizer", tv["evaluations"].as_u64().unwrap_or(0));
                        *extra = json!({"tsan": "ran clean"});
                    }
                }
            }
        }
    }
    Outcome::Pass
}

pub fn replay_c18(v: &Value) -> Result<Option<Fail>, String> {
    match v["kind"].as_str() {
        Some("probe") => match probe()? {
            None => Ok(None),
            Some(d) => Ok(Some(Fail::new("C18:send_sync", d))),
        },
        Some("concurrent") => {
            let bin = build_conc(false)?;
            let tmp = std::env::temp_dir().join(format!("c18-replay-{}.json", std::process::id()));
            std::fs::write(&tmp, serde_json::to_string(v).unwrap()).map_err(|e| e.to_string())?;
            let mut c = Command::new(&bin);
            c.arg("replay").arg(&tmp);
            let r = run_capture(c);
            let _ = std::fs::remove_file(&tmp);
            let (code, out, _e) = r?;
            if code == 1 {
                let clause = if out.contains("DEADLOCK ") { "C18:deadlock" } else { "C18:transcript" };
                Ok(Some(Fail::new(clause, out.chars().take(1500).collect())))
            } else if code == 0 {
                Ok(None)
            } else {
                Err(format!("c18_conc replay exited with {}", code))
            }
        }
        Some("cold_start") => {
            let bin = build_conc(false)?;
            let path = target_dir().join("c18-cold-replay.json");
            std::fs::write(&path, serde_json::to_string(&v["case"]).unwrap()).map_err(|e| e.to_string())?;
            for _ in 0..300 {
                let mut c = Command::new(&bin);
                c.arg("firstuse").arg(&path);
                let out = c.output().map_err(|e| e.to_string())?;
                if out.status.code() == Some(1) {
                    return Ok(Some(Fail::new("C18:cold_start", String::from_utf8_lossy(&out.stdout).trim().to_string())));
                }
            }
            Ok(None)
        }
        Some("longdrop") => match longdrop(v["rounds"].as_u64().unwrap_or(1000) as usize, v["len"].as_u64().unwrap_or(400_000) as usize)? {
            None => Ok(None),
            Some(m) => Ok(Some(Fail::new("C18:concurrent_release_aborts", m))),
        },
        _ => Err("replay of a sanitizer report: re-run the thorough check".into()),
    }
}
