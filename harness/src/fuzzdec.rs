//! Byte-level decoders shared by the libFuzzer targets (/verif/fuzz) and by `pbt fuzz-artifact`,
//! so that a saved fuzzer input decodes to exactly the case the target ran.

use crate::core::*;
use crate::drive::{self, Obs, Profile, Source, WalkOpts};
use crate::gen::{self, Case, PosMode, RawPos, Start};
use crate::props;
use crate::textprops;

pub struct Cursor<'a> {
    d: &'a [u8],
    i: usize,
}
impl<'a> Cursor<'a> {
    pub fn new(d: &'a [u8]) -> Self {
        Cursor { d, i: 0 }
    }
    pub fn u8(&mut self) -> u8 {
        let v = self.d.get(self.i).copied().unwrap_or(0);
        self.i += 1;
        v
    }
    pub fn u16(&mut self) -> u16 {
        (self.u8() as u16) << 8 | self.u8() as u16
    }
    pub fn left(&self) -> usize {
        self.d.len().saturating_sub(self.i)
    }
}

/// bytes -> game case. Layout: [kind][n_picks][same_types][side][mn] picks*3 ... then (sel_hi, sel_lo, bias)*
pub fn decode_game(data: &[u8], allow_hanging: bool) -> (Case, Profile) {
    let mut c = Cursor::new(data);
    let kind = c.u8();
    let profile = match kind >> 6 {
        0 => Profile::Normal,
        1 => Profile::Cycle,
        2 => Profile::Fight,
        _ => Profile::Normal,
    };
    let start = match kind & 7 {
        0 => Start::Setup,
        1 => {
            let x = c.u8();
            let n = 1 + (c.u8() % 3) as usize;
            let imm: Vec<(u8, u8, u8)> = (0..n).map(|_| (c.u8(), c.u8(), c.u8())).collect();
            let sel = c.u8();
            Start::Pos(gen::near_immobile_pos(x & 1 == 0, &imm, sel, x & 2 == 0, c.u8()))
        }
        6 => {
            let mut sel = [0u8; 8];
            for x in sel.iter_mut() {
                *x = c.u8();
            }
            let n = (c.u8() % 6) as usize;
            let extras: Vec<(u8, u8, u8)> = (0..n).map(|_| (c.u8(), c.u8(), c.u8())).collect();
            let flags = c.u8();
            Start::Pos(gen::motif_pos(&sel, &extras, flags & 1 == 0, flags & 6 == 0))
        }
        k => {
            let full = k == 2;
            let n = if full { 32 } else { 1 + (c.u8() % 24) as usize };
            let same_types = if k == 3 { 1 + c.u8() % 35 } else { 0 };
            let gold_to_move = c.u8() & 1 == 0;
            let mn_sel = c.u8();
            let picks: Vec<(u8, u8, u8)> = (0..n).map(|_| (c.u8(), c.u8(), c.u8())).collect();
            Start::Pos(gen::build_pos(&RawPos { full, same_types, picks, gold_to_move, mn_sel, keep_hanging: allow_hanging && k == 7 && mn_sel & 1 == 1, last_rabbits: k == 5 }, PosMode::GameStart))
        }
    };
    let mut ops = vec![];
    while c.left() >= 3 && ops.len() < 2000 {
        ops.push((c.u16(), c.u8()));
    }
    (Case { start, ops, aux: 0 }, profile)
}

/// All walker observers at once: the fuzz target checks every walker-based property on the case.
pub struct AllObs {
    obs: Vec<(&'static str, Box<dyn Obs>)>,
}
impl AllObs {
    pub fn new() -> Self {
        let ids = ["C19", "C01", "C02", "C03", "C04", "C05", "C06", "C07", "C08", "C09", "C10", "C12", "C13", "C14", "C11"];
        AllObs { obs: ids.iter().map(|id| (*id, crate::registry::observer_for(id).unwrap()())).collect() }
    }
}
impl Obs for AllObs {
    fn on_start(&mut self, s: &Start, v: &drive::View, st: &mut Stats) -> Check {
        for (_, o) in self.obs.iter_mut() {
            o.on_start(s, v, st)?;
        }
        Ok(())
    }
    fn on_state(&mut self, v: &drive::View, st: &mut Stats) -> Check {
        for (_, o) in self.obs.iter_mut() {
            o.on_state(v, st)?;
        }
        Ok(())
    }
    fn on_edge(&mut self, e: &drive::Edge, st: &mut Stats) -> Check {
        for (_, o) in self.obs.iter_mut() {
            o.on_edge(e, st)?;
        }
        Ok(())
    }
    fn on_end(&mut self, v: &drive::View, st: &mut Stats) -> Check {
        for (_, o) in self.obs.iter_mut() {
            o.on_end(v, st)?;
        }
        Ok(())
    }
}

pub struct FuzzFail {
    pub fail: Fail,
    pub replay: serde_json::Value,
}

/// Runs the structured game target on one input. `only` restricts the oracle to one property's
/// observer (used when converting an artifact for a specific check), None = all.
pub fn game_target(data: &[u8], only: Option<&str>) -> Result<(), FuzzFail> {
    let allow_hanging = only.map(|id| crate::registry::HANGING_OK.contains(&id)).unwrap_or(false);
    let (case, profile) = decode_game(data, allow_hanging);
    let opts = WalkOpts { profile, expand: None, follow_norep: false, inject: crate::drive::Inject::No, interfere: false, play_on: false };
    let mut st = Stats::default();
    st.frozen = true;
    let mut all;
    let mut one;
    let obs: &mut dyn Obs = match only {
        Some(id) => {
            one = crate::registry::observer_for(id).unwrap()();
            &mut *one
        }
        None => {
            all = AllObs::new();
            &mut all
        }
    };
    match drive::walk(&case.start, Source::Ops(&case.ops), 0, &opts, obs, &mut st) {
        Ok(_) => Ok(()),
        Err(wf) if wf.inconclusive => Ok(()),
        Err(wf) => {
            let id: String = wf.fail.clause.split(':').next().unwrap_or("C19").to_string();
            let replay = crate::runner::replay_json(&id, "fuzz_game", &wf.fail, &case.start, &wf.trace, profile, 0, 0);
            Err(FuzzFail { fail: wf.fail, replay })
        }
    }
}

pub fn board_target(data: &[u8]) -> Result<(), FuzzFail> {
    let text = String::from_utf8_lossy(data).to_string();
    let mut st = Stats::default();
    st.frozen = true;
    textprops::c15_text_check(&text, &mut st).map_err(|f| FuzzFail {
        replay: serde_json::json!({"property": "C15", "kind": "text", "clause": f.clause, "detail": f.detail, "text": text}),
        fail: f,
    })?;
    // accepted text: printing the state and parsing it again must round-trip (C15, first half)
    if let Ok(Ok(g)) = guard(|| text.parse::<arimaa_engine_step::GameState>()) {
        let printed = guard(|| g.to_string());
        if let Ok(p) = printed {
            let again = guard(|| p.parse::<arimaa_engine_step::GameState>().map(|x| x.to_string()));
            let ok = matches!(&again, Ok(Ok(s)) if *s == p);
            if !ok {
                let f = Fail::new("C15:reprint", format!("printed form of a parsed state does not round-trip: {:?}", p));
                return Err(FuzzFail { replay: serde_json::json!({"property": "C15", "kind": "text", "clause": f.clause, "detail": f.detail, "text": text}), fail: f });
            }
        }
    }
    Ok(())
}

pub fn action_target(data: &[u8]) -> Result<(), FuzzFail> {
    let text = String::from_utf8_lossy(data).to_string();
    let mut st = Stats::default();
    st.frozen = true;
    textprops::c16_string(&text, &mut st).map_err(|f| FuzzFail {
        replay: serde_json::json!({"property": "C16", "kind": "string", "clause": f.clause, "detail": f.detail, "text": text}),
        fail: f,
    })
}

#[allow(dead_code)]
fn _use(_: props::C19) {}
