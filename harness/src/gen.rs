//! Generators (DESIGN.md §3.2). All randomness comes from proptest strategies; the
//! functions below are pure maps from raw generated values to sound inputs (legal
//! positions, legal setup orders, selectors into *offered* action lists).

use crate::model::{self as m, Board};
use proptest::prelude::*;

#[derive(Clone, Debug, PartialEq, Eq)]
pub struct PosSpec {
    pub board: Board,
    pub gold_to_move: bool,
    pub move_number: usize,
    /// which of the diagram notations the parser documents / the repository's tests use is used to
    /// hand the position to the engine (see Board::diagram_styled); 0 = exactly the printed form
    pub notation: u8,
}

#[derive(Clone, Debug, PartialEq, Eq)]
pub enum Start {
    Setup,
    Pos(PosSpec),
}

/// One generated game: a start and a list of (selector, bias) pairs, each resolved against the
/// list of actions the engine offers at that point.
#[derive(Clone, Debug)]
pub struct Case {
    pub start: Start,
    pub ops: Vec<(u16, u8)>,
    /// seed for the sampling decisions of the turn-tree expander (pure function of the case)
    pub aux: u64,
}

#[derive(Clone, Debug)]
pub struct RawPos {
    pub full: bool,
    pub same_types: u8,
    pub picks: Vec<(u8, u8, u8)>,
    pub gold_to_move: bool,
    pub mn_sel: u8,
    /// keep pieces that stand unsupported on a trap in the start position (a diagram may show such
    /// a position; the first action removes them - C10 "once any action has been applied")
    pub keep_hanging: bool,
    /// endgame material: each side keeps exactly one rabbit (elimination is one capture away)
    pub last_rabbits: bool,
}

const FULL_ORDER: [u8; 16] =
    [m::E, m::M, m::H, m::H, m::D, m::D, m::C, m::C, m::R, m::R, m::R, m::R, m::R, m::R, m::R, m::R];
const KIND_TABLE: [u8; 16] =
    [m::R, m::R, m::R, m::R, m::R, m::C, m::C, m::D, m::D, m::H, m::H, m::M, m::E, m::R, m::C, m::E];

pub fn move_number_from(sel: u8) -> usize {
    match sel % 16 {
        0 => 0,
        1 => 1,
        2..=5 => 2,
        6 => 3,
        7..=11 => 2 + (sel as usize / 16) * 3,
        12 => 1_000_000,
        13 => match sel / 16 {
            0..=3 => 1_000_000_000_000,
            4..=6 => 1usize << 63,
            7..=9 => (1usize << 63) - 1,
            10..=12 => usize::MAX - (1usize << 33),
            _ => usize::MAX / 3,
        },
        14 => match sel / 16 {
            0..=7 => 4_294_967_295,
            _ => 65_535 + (sel as usize / 16 - 8),
        },
        _ => 17,
    }
}

#[derive(Clone, Copy, Debug, PartialEq, Eq)]
pub enum PosMode {
    /// any legal position (rabbits may stand on goal ranks, a side may lack rabbits)
    Any,
    /// start of a game that should not be over at once: no rabbit on its goal rank, both sides
    /// have a rabbit
    GameStart,
}

/// Pure map raw -> legal position (legalised by construction, no rejection).
pub fn build_pos(raw: &RawPos, mode: PosMode) -> PosSpec {
    let mut b = Board::empty();
    let mut counts = [[0u8; 7]; 2];
    let mut placed: Vec<u8> = vec![];
    for (j, &(sqsel, codesel, flags)) in raw.picks.iter().enumerate() {
        // ---- which piece
        let (gold, k) = if raw.full {
            let j = j % 32;
            (j < 16, FULL_ORDER[j % 16])
        } else {
            let gold = codesel & 1 == 0;
            let mut k = KIND_TABLE[((codesel >> 1) & 15) as usize];
            if raw.same_types != 0 {
                // both sides get the same two kinds, so equal-strength contacts are common
                let a = 1 + (raw.same_types % 6);
                let bb = 1 + ((raw.same_types / 6) % 6);
                k = if (codesel >> 1) & 1 == 0 { a } else { bb };
            }
            (gold, k)
        };
        // respect the complement: try the other kinds, then the other side
        let mut chosen = None;
        'outer: for side_try in 0..2 {
            let g = if side_try == 0 { gold } else { !gold };
            for dk in 0..6u8 {
                let kk = 1 + ((k - 1 + dk) % 6);
                if counts[g as usize][kk as usize] < m::COMPLEMENT[kk as usize] {
                    chosen = Some((g, kk));
                    break 'outer;
                }
            }
        }
        let (gold, k) = match chosen {
            Some(c) => c,
            None => break,
        };
        // ---- which square
        let mut cands: Vec<u8> = vec![];
        match flags & 3 {
            0 | 1 if !placed.is_empty() => {
                for &p in placed.iter() {
                    for n in m::neighbours(p) {
                        if b.at(n) == m::EMPTY && !cands.contains(&n) {
                            cands.push(n);
                        }
                    }
                }
                cands.sort();
            }
            2 => {
                for &t in m::TRAPS.iter() {
                    if b.at(t) == m::EMPTY {
                        cands.push(t);
                    }
                    for n in m::neighbours(t) {
                        if b.at(n) == m::EMPTY && !cands.contains(&n) {
                            cands.push(n);
                        }
                    }
                }
                cands.sort();
            }
            _ => {}
        }
        if flags & 4 != 0 {
            let edge: Vec<u8> = (if cands.is_empty() { (0..64).collect::<Vec<u8>>() } else { cands.clone() })
                .into_iter()
                .filter(|&s| b.at(s) == m::EMPTY && matches!(m::rank_of(s), 1 | 2 | 7 | 8))
                .collect();
            if !edge.is_empty() {
                cands = edge;
            }
        }
        if cands.is_empty() {
            cands = (0..64u8).filter(|&s| b.at(s) == m::EMPTY).collect();
        }
        if cands.is_empty() {
            break;
        }
        let sq = cands[(sqsel as usize * cands.len()) >> 8];
        b.0[sq as usize] = m::mk(gold, k);
        counts[gold as usize][k as usize] += 1;
        placed.push(sq);
    }
    // ---- legalise: nothing unsupported on a trap (traps are never adjacent to each other, so one
    // pass suffices)
    if raw.last_rabbits {
        for gold in [true, false] {
            let mut seen = false;
            for &sq in placed.iter() {
                if b.at(sq) == m::mk(gold, m::R) {
                    if seen {
                        b.0[sq as usize] = m::EMPTY;
                    }
                    seen = true;
                }
            }
        }
    }
    if !raw.keep_hanging {
        for &t in m::TRAPS.iter() {
            let c = b.at(t);
            if c != m::EMPTY && !b.has_friend_adjacent(t, m::is_gold(c)) {
                b.0[t as usize] = m::EMPTY;
            }
        }
    }
    if mode == PosMode::GameStart {
        for f in 0..8u8 {
            if b.at(f) == m::mk(true, m::R) {
                b.0[f as usize] = m::EMPTY;
            }
            if b.at(56 + f) == m::mk(false, m::R) {
                b.0[(56 + f) as usize] = m::EMPTY;
            }
        }
        for gold in [true, false] {
            if !b.has_rabbit(gold) {
                // first empty non-trap square on the side's second/third rank that does not need support
                let rows: [u8; 2] = if gold { [6, 5] } else { [1, 2] };
                let off = raw.mn_sel % 8;
                'place: for r in rows {
                    for i in 0..8u8 {
                        let s = r * 8 + (i + off) % 8;
                        if b.at(s) == m::EMPTY && !m::is_trap(s) {
                            b.0[s as usize] = m::mk(gold, m::R);
                            break 'place;
                        }
                    }
                }
            }
        }
    }
    debug_assert!((raw.keep_hanging || b.traps_legal()) && b.within_complement());
    let notation = if raw.mn_sel % 3 == 0 { 0 } else { raw.mn_sel.rotate_left(3) ^ (raw.picks.len() as u8).wrapping_mul(37) };
    PosSpec { board: b, gold_to_move: raw.gold_to_move, move_number: move_number_from(raw.mn_sel), notation }
}

/// A board on which every piece of `mover` is frozen or blocked (used to steer C04 towards the
/// immobilisation rung and C05-C07 towards states with very few legal actions). Returns the board
/// and the squares of the mover's pieces in placement order.
pub fn immobilised_board(mover: bool, imm: &[(u8, u8, u8)]) -> (Board, Vec<u8>) {
    let last = !mover;
    let mut b = Board::empty();
    let mut used: Vec<u8> = vec![];
    for &(sqsel, ksel, style) in imm.iter().take(4) {
        let sq = sqsel % 64;
        if b.at(sq) != m::EMPTY || used.contains(&sq) || m::is_trap(sq) {
            continue;
        }
        // no mover piece may be adjacent to another mover piece (it would be unfrozen)
        if m::neighbours(sq).any(|n| b.at(n) != m::EMPTY && m::is_gold(b.at(n)) == mover) {
            continue;
        }
        if style % 4 == 3 {
            // boxed piece on the edge of the board: not frozen, but every neighbour is occupied - one by a
            // weaker enemy piece that is itself boxed in (so it cannot be pushed), the others by enemy
            // pieces of equal strength (which neither freeze nor can be pushed)
            const EDGE: [u8; 28] = [0, 1, 2, 3, 4, 5, 6, 7, 8, 15, 16, 23, 24, 31, 32, 39, 40, 47, 48, 55, 56, 57, 58, 59, 60, 61, 62, 63];
            let sq = EDGE[(sqsel as usize * EDGE.len()) >> 8];
            let k = [m::C, m::D, m::H][(ksel % 3) as usize];
            if b.at(sq) != m::EMPTY || m::neighbours(sq).any(|n| b.at(n) != m::EMPTY) {
                continue;
            }
            let ns: Vec<u8> = m::neighbours(sq).filter(|n| !m::is_trap(*n)).collect();
            if ns.len() != m::neighbours(sq).count() || ns.len() > 3 {
                continue;
            }
            if b.count(m::mk(mover, k)) >= m::COMPLEMENT[k as usize] as usize || b.count(m::mk(last, k)) + ns.len() - 1 > m::COMPLEMENT[k as usize] as usize {
                continue;
            }
            let wi = (ksel as usize / 3) % ns.len();
            let wsq = ns[wi];
            // squares that must be filled around the weak piece
            let fill: Vec<u8> = m::neighbours(wsq).filter(|&n| n != sq).collect();
            if fill.iter().any(|&n| b.at(n) != m::EMPTY || m::is_trap(n) || ns.contains(&n)) {
                continue;
            }
            if b.count(m::mk(last, m::R)) + 1 + fill.len() > 8 {
                continue;
            }
            b.0[sq as usize] = m::mk(mover, k);
            for (i, &n) in ns.iter().enumerate() {
                b.0[n as usize] = if i == wi { m::mk(last, m::R) } else { m::mk(last, k) };
            }
            for &n in fill.iter() {
                b.0[n as usize] = m::mk(last, m::R);
            }
            used.push(sq);
        } else if style % 3 == 0 {
            // blocked rabbit: enemy rabbits in front and on both sides (not frozen, cannot move, cannot push)
            let fwd = if mover { 0 } else { 2 };
            let mut ok = true;
            let mut walls = vec![];
            for d in [fwd, 1u8, 3u8] {
                if let Some(n) = m::neighbour(sq, d) {
                    if b.at(n) == m::EMPTY && !m::is_trap(n) && !m::neighbours(n).any(|x| x != sq && b.at(x) != m::EMPTY && m::is_gold(b.at(x)) == mover) {
                        walls.push(n);
                    } else if b.at(n) == m::EMPTY || m::is_gold(b.at(n)) == mover {
                        ok = false;
                    }
                }
            }
            let enemy_rabbits = b.count(m::mk(last, m::R)) + walls.len();
            if ok && enemy_rabbits <= 8 && b.count(m::mk(mover, m::R)) < 8 {
                b.0[sq as usize] = m::mk(mover, m::R);
                for wsq in walls {
                    b.0[wsq as usize] = m::mk(last, m::R);
                }
                used.push(sq);
            }
        } else {
            // frozen piece: a stronger enemy piece next to it
            let k = 1 + (ksel % 5); // R..M (an elephant cannot be frozen)
            if b.count(m::mk(mover, k)) >= m::COMPLEMENT[k as usize] as usize {
                continue;
            }
            let stronger: Vec<u8> = ((k + 1)..=m::E).filter(|&kk| b.count(m::mk(last, kk)) < m::COMPLEMENT[kk as usize] as usize).collect();
            if stronger.is_empty() {
                continue;
            }
            let ek = stronger[(ksel as usize / 5) % stronger.len()];
            let spots: Vec<u8> = m::neighbours(sq).filter(|&n| b.at(n) == m::EMPTY && !m::is_trap(n)).collect();
            if spots.is_empty() {
                continue;
            }
            let n = spots[(style as usize / 3) % spots.len()];
            b.0[sq as usize] = m::mk(mover, k);
            b.0[n as usize] = m::mk(last, ek);
            used.push(sq);
        }
    }
    (b, used)
}

/// A start one step away from immobilisation: the side `x` has (almost) all pieces frozen or blocked
/// except one that has just stepped back. Cycling games from here reach mid-turn states in which the
/// mover has no further step, which is where has_move / can_pass / is_terminal must agree (C07).
pub fn near_immobile_pos(x_gold: bool, imm: &[(u8, u8, u8)], sel: u8, gold_to_move: bool, mn_sel: u8) -> PosSpec {
    let (mut b, squares) = immobilised_board(x_gold, imm);
    let y = !x_gold;
    // both sides need a rabbit, otherwise the game is over at once
    if !b.has_rabbit(x_gold) {
        // a frozen rabbit of x: next to any y piece stronger than a rabbit, away from x pieces
        'outer: for s in 0..64u8 {
            let c = b.at(s);
            if c != m::EMPTY && m::is_gold(c) == y && m::kind(c) > m::R {
                for n in m::neighbours(s) {
                    let goal_row = if x_gold { 0 } else { 7 };
                    if b.at(n) == m::EMPTY && !m::is_trap(n) && n / 8 != goal_row && !m::neighbours(n).any(|q| b.at(q) != m::EMPTY && m::is_gold(b.at(q)) == x_gold) {
                        b.0[n as usize] = m::mk(x_gold, m::R);
                        break 'outer;
                    }
                }
            }
        }
    }
    if !b.has_rabbit(y) {
        let goal_row = if y { 0 } else { 7 };
        for i in 0..64u8 {
            let s = (i.wrapping_mul(7).wrapping_add(sel)) % 64;
            if b.at(s) == m::EMPTY && !m::is_trap(s) && s / 8 != goal_row && !m::neighbours(s).any(|q| b.at(q) != m::EMPTY) {
                b.0[s as usize] = m::mk(y, m::R);
                break;
            }
        }
    }
    // un-immobilise one piece of x: move it one step back to a square where it is not frozen
    let mut cands: Vec<(u8, u8)> = vec![];
    for &p in squares.iter() {
        let c = b.at(p);
        if c == m::EMPTY || m::is_gold(c) != x_gold {
            continue;
        }
        for d in 0..4u8 {
            if let Some(n) = m::neighbour(p, d) {
                if b.at(n) != m::EMPTY || m::is_trap(n) {
                    continue;
                }
                // the step n -> p must be legal for a rabbit (never backward)
                if m::kind(c) == m::R {
                    let fwd = if x_gold { 0 } else { 2 };
                    if m::opposite(d) != fwd && (d == 0 || d == 2) {
                        continue;
                    }
                    if d == fwd {
                        continue;
                    }
                }
                let mut t = b;
                t.0[p as usize] = m::EMPTY;
                t.0[n as usize] = c;
                if !t.is_frozen(n) {
                    cands.push((p, n));
                }
            }
        }
    }
    if !cands.is_empty() {
        let (p, n) = cands[(sel as usize * cands.len()) >> 8];
        let c = b.at(p);
        b.0[p as usize] = m::EMPTY;
        b.0[n as usize] = c;
        // in some positions the piece is taken one or two steps further back (so that it reaches the
        // immobilised arrangement only with its second or third step); officers only, rabbits cannot go back
        let extra = (mn_sel % 3) as usize;
        let mut at = n;
        let mut z = crate::core::mix64(sel as u64 * 131 + mn_sel as u64);
        if m::kind(c) != m::R {
            for _ in 0..extra {
                z = crate::core::mix64(z);
                let opts: Vec<u8> = m::neighbours(at).filter(|&q| q != p && b.at(q) == m::EMPTY && !m::is_trap(q)).collect();
                if opts.is_empty() {
                    break;
                }
                let q = opts[(z % opts.len() as u64) as usize];
                let mut t = b;
                t.0[at as usize] = m::EMPTY;
                t.0[q as usize] = c;
                if t.is_frozen(q) {
                    break;
                }
                b = t;
                at = q;
            }
        }
    }
    for &t in m::TRAPS.iter() {
        let c = b.at(t);
        if c != m::EMPTY && !b.has_friend_adjacent(t, m::is_gold(c)) {
            b.0[t as usize] = m::EMPTY;
        }
    }
    PosSpec { board: b, gold_to_move, move_number: move_number_from(mn_sel), notation: if sel % 2 == 0 { 0 } else { sel.rotate_left(2) ^ mn_sel } }
}

pub fn near_immobile() -> impl Strategy<Value = PosSpec> {
    (any::<bool>(), prop::collection::vec(pick(), 1..4), any::<u8>(), any::<bool>(), any::<u8>())
        .prop_map(|(x, imm, sel, g, mn)| near_immobile_pos(x, &imm, sel, g, mn))
}

/// "False protection" motif: a mover piece X stands on a trap with a single friendly guard G; an
/// enemy piece v next to G can be pushed by G (possibly into another, unguarded trap). If G does
/// push, X is captured by the completing step and v possibly by the displacement: both capture
/// causes, of both colours, inside one turn. With `last` both X and v are the sides' last rabbits
/// (elimination in the middle of a turn). Extra pieces are scattered away from the motif.
pub fn motif_pos(sel: &[u8; 8], extras: &[(u8, u8, u8)], gold_to_move: bool, last: bool) -> PosSpec {
    let mover = gold_to_move;
    let mut b = Board::empty();
    let t = m::TRAPS[(sel[0] % 4) as usize];
    // guard square and enemy square: prefer the straight line towards the next trap
    let mut best: Option<(u8, u8, u8)> = None;
    let mut cands: Vec<(u8, u8, u8)> = vec![];
    for d1 in 0..4u8 {
        if let Some(g) = m::neighbour(t, d1) {
            for d2 in 0..4u8 {
                if let Some(v) = m::neighbour(g, d2) {
                    if v == t {
                        continue;
                    }
                    for d3 in 0..4u8 {
                        if let Some(w) = m::neighbour(v, d3) {
                            if w != g && w != t {
                                cands.push((g, v, w));
                            }
                        }
                    }
                }
            }
        }
    }
    let trapw: Vec<(u8, u8, u8)> = cands.iter().copied().filter(|c| m::is_trap(c.2)).collect();
    let pool = if sel[1] % 3 != 0 && !trapw.is_empty() { &trapw } else { &cands };
    if !pool.is_empty() {
        best = Some(pool[(sel[2] as usize * pool.len()) >> 8]);
    }
    let (g, v, w) = best.unwrap();
    let (kx, kv, kg) = if last {
        (m::R, m::R, 2 + sel[3] % 5)
    } else {
        let kv = 1 + sel[3] % 5; // R..M
        let kg = kv + 1 + (sel[4] % (m::E - kv));
        let mut kx = 1 + sel[5] % 6;
        if kx == kg && m::COMPLEMENT[kx as usize] < 2 {
            kx = 1 + (kx % 4); // one elephant / one camel per side
        }
        (kx, kv, kg)
    };
    debug_assert!(!(kx == kg && m::COMPLEMENT[kx as usize] < 2));
    b.0[t as usize] = m::mk(mover, kx);
    b.0[g as usize] = m::mk(mover, kg);
    b.0[v as usize] = m::mk(!mover, kv);
    // both sides need a rabbit somewhere unless X / v are the rabbits
    let mut counts = [[0u8; 7]; 2];
    counts[mover as usize][kx as usize] += 1;
    counts[mover as usize][kg as usize] += 1;
    counts[!mover as usize][kv as usize] += 1;
    let near = |sq: u8, c: u8| sq == c || m::neighbours(c).any(|n| n == sq);
    let mut place = |b: &mut Board, gold: bool, k: u8, sqsel: u8| {
        if counts[gold as usize][k as usize] >= m::COMPLEMENT[k as usize] {
            return;
        }
        for i in 0..64u8 {
            let sq = (sqsel.wrapping_add(i.wrapping_mul(11))) % 64;
            if b.at(sq) != m::EMPTY || m::is_trap(sq) || near(sq, t) || near(sq, w) || near(sq, v) || near(sq, g) {
                continue;
            }
            let goal_row = if gold { 0 } else { 7 };
            if k == m::R && sq / 8 == goal_row {
                continue;
            }
            b.0[sq as usize] = m::mk(gold, k);
            counts[gold as usize][k as usize] += 1;
            return;
        }
    };
    if !last {
        if kx != m::R && kg != m::R {
            place(&mut b, mover, m::R, sel[6]);
        }
        if kv != m::R {
            place(&mut b, !mover, m::R, sel[7]);
        }
    }
    for &(sqsel, codesel, _) in extras.iter().take(6) {
        let gold = codesel & 1 == 0;
        let mut k = KIND_TABLE[((codesel >> 1) & 15) as usize];
        if last && k == m::R {
            k = m::C;
        }
        place(&mut b, gold, k, sqsel);
    }
    PosSpec { board: b, gold_to_move, move_number: move_number_from(sel[6] ^ sel[7]), notation: if sel[1] % 2 == 0 { 0 } else { sel[1] ^ sel[5] } }
}

/// "Siege" motif: an enemy piece Z stands on a trap with one to three guards; stronger pieces of the mover
/// stand next to the guards, so that within one turn guards can be pushed or pulled away (also across the
/// line between two traps, also two of them one after the other) and Z falls, or does not. Few other
/// pieces, so that the whole turn tree is small.
pub fn siege_pos(sel: &[u8; 8], extras: &[(u8, u8, u8)], gold_to_move: bool) -> PosSpec {
    let mover = gold_to_move;
    let mut b = Board::empty();
    let t = m::TRAPS[(sel[0] % 4) as usize];
    let mut counts = [[0u8; 7]; 2];
    let mut put = |b: &mut Board, sq: u8, gold: bool, mut k: u8, counts: &mut [[u8; 7]; 2]| -> bool {
        if b.at(sq) != m::EMPTY {
            return false;
        }
        // stay within the complement: fall back to weaker kinds, then to stronger ones
        let mut tries = 0;
        while counts[gold as usize][k as usize] >= m::COMPLEMENT[k as usize] && tries < 6 {
            k = if k > 1 { k - 1 } else { 6 };
            tries += 1;
        }
        if counts[gold as usize][k as usize] >= m::COMPLEMENT[k as usize] {
            return false;
        }
        let goal_row = if gold { 0 } else { 7 };
        if k == m::R && sq / 8 == goal_row {
            return false;
        }
        b.0[sq as usize] = m::mk(gold, k);
        counts[gold as usize][k as usize] += 1;
        true
    };
    let kz = 1 + sel[1] % 6;
    put(&mut b, t, !mover, kz, &mut counts);
    let nbs: Vec<u8> = m::neighbours(t).collect();
    let ng = 1 + (sel[2] % 3) as usize;
    let first = (sel[3] % 4) as usize;
    let mut guards: Vec<u8> = vec![];
    for i in 0..ng {
        let gq = nbs[(first + i * (1 + (sel[4] % 2) as usize)) % nbs.len()];
        if guards.contains(&gq) {
            continue;
        }
        let kg = 1 + (sel[5].rotate_left(i as u32 * 3) % 5); // R..M, so that something can be stronger
        if put(&mut b, gq, !mover, kg, &mut counts) {
            guards.push(gq);
        }
    }
    // attackers: a stronger piece of the mover next to (most of) the guards, not on a trap, not next to Z's trap
    // from the far side only
    for (i, &gq) in guards.iter().enumerate() {
        if (sel[6] >> i) & 1 == 1 && guards.len() > 1 {
            continue; // this guard has no attacker of its own
        }
        let kg = m::kind(b.at(gq));
        let cands: Vec<u8> = m::neighbours(gq).filter(|&q| q != t && b.at(q) == m::EMPTY && !m::is_trap(q)).collect();
        if cands.is_empty() {
            continue;
        }
        let aq = cands[(sel[7].rotate_left(i as u32 * 2) as usize) % cands.len()];
        let ka = (kg + 1 + (sel[(i + 1) % 8] % (m::E - kg))).min(m::E);
        put(&mut b, aq, mover, ka, &mut counts);
    }
    // a rabbit for each side away from the motif, then the extras
    let near_motif = |b: &Board, sq: u8| m::is_trap(sq) || sq == t || m::neighbours(sq).any(|n| n == t || guards.contains(&n) || (b.at(n) != m::EMPTY && m::neighbours(n).any(|x| guards.contains(&x))));
    for gold in [true, false] {
        if counts[gold as usize][m::R as usize] == 0 {
            for i in 0..64u8 {
                let sq = (sel[if gold { 6 } else { 7 }].wrapping_add(i.wrapping_mul(13))) % 64;
                if !near_motif(&b, sq) && put(&mut b, sq, gold, m::R, &mut counts) {
                    break;
                }
            }
        }
    }
    for &(sqsel, codesel, _) in extras.iter().take(5) {
        let gold = codesel & 1 == 0;
        let k = KIND_TABLE[((codesel >> 1) & 15) as usize];
        for i in 0..64u8 {
            let sq = (sqsel.wrapping_add(i.wrapping_mul(11))) % 64;
            if !near_motif(&b, sq) && put(&mut b, sq, gold, k, &mut counts) {
                break;
            }
        }
    }
    PosSpec { board: b, gold_to_move, move_number: move_number_from(sel[6] ^ sel[3]), notation: 0 }
}

/// "Open" positions: as many pieces of the mover as possible free to step (no two of them adjacent, none
/// frozen) and enemy rabbits next to the mover's officers for pushes and pulls: positions near the
/// maximum number of offered actions.
pub fn open_pos(sel: &[u8; 8], picks: &[(u8, u8, u8)], gold_to_move: bool) -> PosSpec {
    let mover = gold_to_move;
    let mut b = Board::empty();
    // the mover's pieces on squares of one colour of the checkerboard, so that no two are adjacent
    let parity = (sel[0] % 2) as u8;
    let mut squares: Vec<u8> = (0..64u8).filter(|&q| (q / 8 + q % 8) % 2 == parity && !m::is_trap(q)).collect();
    // rabbits must not stand on their goal row; keep them off both edge rows to leave their steps free
    let mut z = (sel[1] as u64).wrapping_mul(0x9e3779b97f4a7c15) ^ sel[2] as u64;
    for i in (1..squares.len()).rev() {
        z = crate::core::mix64(z);
        squares.swap(i, (z % (i as u64 + 1)) as usize);
    }
    let n_mover = if sel[3] % 2 == 0 { 16 } else { 10 + (sel[3] % 7) as usize }; // 10..16
    let kinds: [u8; 16] = [m::E, m::M, m::H, m::H, m::D, m::D, m::C, m::C, m::R, m::R, m::R, m::R, m::R, m::R, m::R, m::R];
    let mut placed = 0;
    for &sq in squares.iter() {
        if placed >= n_mover {
            break;
        }
        let k = kinds[placed];
        let goal_row = if mover { 0 } else { 7 };
        if k == m::R && sq / 8 == goal_row {
            continue;
        }
        b.0[sq as usize] = m::mk(mover, k);
        placed += 1;
    }
    // enemy rabbits (they freeze nothing and every officer can push or pull them) next to officers
    let mut enemy_r = 0;
    let want = 1 + (sel[4] % 8) as usize;
    for &(sqsel, _, _) in picks.iter() {
        if enemy_r >= want {
            break;
        }
        for i in 0..64u8 {
            let sq = (sqsel.wrapping_add(i.wrapping_mul(7))) % 64;
            let goal_row = if !mover { 0 } else { 7 };
            if b.at(sq) != m::EMPTY || m::is_trap(sq) || sq / 8 == goal_row {
                continue;
            }
            let next_to_officer = m::neighbours(sq).any(|n| b.at(n) != m::EMPTY && m::is_gold(b.at(n)) == mover && m::kind(b.at(n)) > m::R);
            if next_to_officer {
                b.0[sq as usize] = m::mk(!mover, m::R);
                enemy_r += 1;
                break;
            }
        }
    }
    if enemy_r == 0 {
        // the enemy needs a rabbit somewhere
        for sq in 8..56u8 {
            if b.at(sq) == m::EMPTY && !m::is_trap(sq) {
                b.0[sq as usize] = m::mk(!mover, m::R);
                break;
            }
        }
    }
    // local search towards more offered actions: relocate one piece at a time (deterministic in `sel`),
    // keeping the position legal (nothing on a trap, no rabbit on a goal row)
    let count = |b: &Board| crate::model::Model::from_position(*b, gold_to_move, 2).offered_norep().len();
    let mut best = count(&b);
    let mut z = crate::core::mix64(u64::from_le_bytes(*sel));
    let rounds = 60 + (sel[6] as usize % 4) * 700; // some positions are left far from the maximum
    for _ in 0..rounds {
        z = crate::core::mix64(z);
        let to = ((z >> 16) % 64) as u8;
        if (z >> 40) % 8 == 0 && b.count(m::mk(!mover, m::R)) < 8 {
            // one more enemy rabbit
            if b.at(to) == m::EMPTY && !m::is_trap(to) && to / 8 != (if !mover { 0 } else { 7 }) {
                let mut c = b;
                c.0[to as usize] = m::mk(!mover, m::R);
                let n = count(&c);
                if n >= best {
                    best = n;
                    b = c;
                }
            }
            continue;
        }
        let occupied: Vec<u8> = (0..64u8).filter(|&q| b.at(q) != m::EMPTY).collect();
        let from = occupied[(z % occupied.len() as u64) as usize];
        let code = b.at(from);
        let goal_row = if m::is_gold(code) { 0 } else { 7 };
        if b.at(to) != m::EMPTY || m::is_trap(to) || (m::kind(code) == m::R && to / 8 == goal_row) {
            continue;
        }
        let mut c = b;
        c.0[from as usize] = m::EMPTY;
        c.0[to as usize] = code;
        let n = count(&c);
        if n >= best {
            best = n;
            b = c;
        }
    }
    PosSpec { board: b, gold_to_move, move_number: move_number_from(sel[5]), notation: 0 }
}

/// "Push-only" positions: the mover's only legal actions are pushes by one officer P that has no free
/// neighbour; P may stand next to a stronger enemy piece and be kept unfrozen by a rabbit only. Built on
/// the a-file corner and mapped by file mirror / colour swap + rank flip. None if the kinds do not fit
/// the complement.
pub fn push_only_pos(sel: &[u8; 8], gold_to_move: bool) -> Option<PosSpec> {
    // template for Gold to move; squares as indices (a8 = 0): a1 = 56, a2 = 48, a3 = 40, b1 = 57, b2 = 49, b3 = 41
    let kp = 2 + sel[0] % 4; // C..M
    let kx = 1 + sel[1] % (kp - 1); // R..kp-1
    let mut b = Board::empty();
    b.0[48] = m::mk(true, kp);
    b.0[49] = m::mk(false, kx);
    if sel[2] % 4 != 0 {
        let ks = kp + 1 + sel[3] % (m::E - kp);
        b.0[40] = m::mk(false, ks);
    } else if sel[2] % 8 == 0 {
        b.0[40] = m::mk(false, kp); // an equal piece: no threat, no step
    } else {
        b.0[40] = m::mk(true, m::R); // own rabbit in front: P is blocked by it
    }
    if sel[4] % 4 != 0 {
        b.0[56] = m::mk(true, m::R);
        b.0[57] = m::mk(false, 2 + sel[5] % 3); // C, D or H next to the rabbit: it cannot step sideways
    } else {
        b.0[56] = m::mk(false, kp.max(2)); // no friend at all: an equal enemy piece fills the square
    }
    if sel[6] % 3 == 0 {
        b.0[41] = m::mk(false, 1 + sel[6] % 4); // b3 occupied: the pushed piece can only go to c2
    }
    // the sides' other rabbits, far away and unable to matter: a silver rabbit on h7, a gold one on h2 blocked?
    b.0[15] = m::mk(false, m::R);
    if b.count(m::mk(true, m::R)) == 0 {
        // Gold needs a rabbit: on g1, walled in by silver cats/dogs so that it adds no step
        b.0[62] = m::mk(true, m::R);
        b.0[61] = m::mk(false, m::D);
        b.0[63] = m::mk(false, m::D);
        b.0[54] = m::mk(false, m::H);
    }
    if !b.within_complement() || !b.traps_legal() {
        return None;
    }
    // symmetries
    let mirror = sel[7] % 2 == 1;
    let mut out = Board::empty();
    for sq in 0..64u8 {
        let c = b.at(sq);
        if c == m::EMPTY {
            continue;
        }
        let (mut r, mut f) = (sq / 8, sq % 8);
        if mirror {
            f = 7 - f;
        }
        let mut code = c;
        if !gold_to_move {
            r = 7 - r;
            code = m::mk(!m::is_gold(c), m::kind(c));
        }
        out.0[(r * 8 + f) as usize] = code;
    }
    if !out.within_complement() || !out.traps_legal() {
        return None;
    }
    Some(PosSpec { board: out, gold_to_move, move_number: move_number_from(sel[5] ^ sel[6]), notation: 0 })
}

pub fn open() -> impl Strategy<Value = PosSpec> {
    (any::<[u8; 8]>(), prop::collection::vec(pick(), 8..=12), any::<bool>()).prop_map(|(sel, picks, g)| open_pos(&sel, &picks, g))
}

pub fn motif() -> impl Strategy<Value = PosSpec> {
    prop_oneof![
        3 => (any::<[u8; 8]>(), prop::collection::vec(pick(), 0..6), any::<bool>(), 0u8..4).prop_map(|(sel, extras, g, l)| motif_pos(&sel, &extras, g, l == 0)),
        2 => (any::<[u8; 8]>(), prop::collection::vec(pick(), 0..4), any::<bool>()).prop_map(|(sel, extras, g)| siege_pos(&sel, &extras, g)),
    ]
}

fn pick() -> impl Strategy<Value = (u8, u8, u8)> {
    (any::<u8>(), any::<u8>(), any::<u8>())
}

/// Raw positions: 15 % full armies, 50 % sparse (1-6 pieces), 35 % medium.
pub fn raw_pos() -> impl Strategy<Value = RawPos> {
    let body = prop_oneof![
        15 => (Just(true), Just(0u8), prop::collection::vec(pick(), 32..=32)),
        38 => (Just(false), Just(0u8), prop::collection::vec(pick(), 1..=6)),
        12 => (Just(false), 1u8..=35, prop::collection::vec(pick(), 2..=8)),
        35 => (Just(false), prop_oneof![4 => Just(0u8), 1 => 1u8..=35], prop::collection::vec(pick(), 7..=24)),
    ];
    (body, any::<bool>(), any::<u8>()).prop_map(|((full, same_types, picks), g, mn)| RawPos {
        full,
        same_types,
        picks,
        gold_to_move: g,
        mn_sel: mn,
        keep_hanging: false,
        last_rabbits: false,
    })
}

/// Like raw_pos, but about one position in eight keeps pieces hanging on traps (see RawPos).
pub fn raw_pos_maybe_hanging() -> impl Strategy<Value = RawPos> {
    (raw_pos(), 0u8..8).prop_map(|(mut r, h)| {
        r.keep_hanging = h == 0;
        r
    })
}

/// Raw positions with few pieces, for recurrence-heavy games.
pub fn raw_pos_small() -> impl Strategy<Value = RawPos> {
    (prop::collection::vec(pick(), 2..=6), 0u8..=35, any::<bool>(), any::<u8>()).prop_map(
        |(picks, st, g, mn)| RawPos {
            full: false,
            same_types: if st < 12 { 0 } else { st },
            picks,
            gold_to_move: g,
            mn_sel: mn,
            keep_hanging: false,
            last_rabbits: st % 5 == 3,
        },
    )
}

pub fn pos(mode: PosMode) -> impl Strategy<Value = PosSpec> {
    raw_pos().prop_map(move |r| build_pos(&r, mode))
}

#[derive(Clone, Copy, Debug)]
pub struct GameParams {
    pub max_ops: usize,
    /// weights of the start kinds
    pub w_setup: u32,
    pub w_pos: u32,
    pub w_small: u32,
    pub w_frozen: u32,
    /// allow start positions with pieces hanging on traps (only for properties whose text covers them)
    pub hanging: bool,
    /// weight of "false protection" motif starts (see motif_pos)
    pub w_motif: u32,
    /// weight of "open" starts near the maximum number of offered actions (see open_pos)
    pub w_open: u32,
}

pub fn game(p: GameParams) -> impl Strategy<Value = Case> {
    let start = prop_oneof![
        p.w_setup => Just(Start::Setup),
        p.w_pos => (raw_pos(), 0u8..8).prop_map(move |(mut r, h)| {
            r.keep_hanging = p.hanging && h == 0;
            r.last_rabbits = !r.full && h == 7;
            Start::Pos(build_pos(&r, PosMode::GameStart))
        }),
        p.w_small => raw_pos_small().prop_map(|r| Start::Pos(build_pos(&r, PosMode::GameStart))),
        p.w_frozen => near_immobile().prop_map(Start::Pos),
        p.w_motif => motif().prop_map(Start::Pos),
        p.w_open => open().prop_map(Start::Pos),
    ];
    (start, prop::collection::vec((any::<u16>(), any::<u8>()), 0..=p.max_ops), any::<u64>())
        .prop_map(|(start, ops, aux)| Case { start, ops, aux })
}

#[cfg(test)]
mod tests {
    use super::*;
    use proptest::strategy::ValueTree;
    use proptest::test_runner::{Config, RngSeed, TestRunner};

    #[test]
    fn special_starts_are_legal() {
        let mut runner = TestRunner::new(Config { rng_seed: RngSeed::Fixed(11), ..Config::default() });
        for i in 0..20000 {
            let p = motif().new_tree(&mut runner).unwrap().current();
            assert!(p.board.within_complement(), "{:?}", crate::core::board_text(&p.board));
            assert!(p.board.traps_legal(), "{:?}", crate::core::board_text(&p.board));
            if i % 40 == 0 {
                let o = open().new_tree(&mut runner).unwrap().current();
                assert!(o.board.within_complement() && o.board.traps_legal(), "{:?}", crate::core::board_text(&o.board));
                assert!(o.board.has_rabbit(true) && o.board.has_rabbit(false) && !o.board.rabbit_on_goal(true) && !o.board.rabbit_on_goal(false), "{:?}", crate::core::board_text(&o.board));
            }
            let q = near_immobile().new_tree(&mut runner).unwrap().current();
            assert!(q.board.within_complement(), "{:?}", crate::core::board_text(&q.board));
            assert!(q.board.traps_legal(), "{:?}", crate::core::board_text(&q.board));
        }
    }

    #[test]
    fn positions_are_legal() {
        let mut runner = TestRunner::new(Config { rng_seed: RngSeed::Fixed(7), ..Config::default() });
        let mut sizes = std::collections::BTreeMap::new();
        for _ in 0..2000 {
            let r = raw_pos().new_tree(&mut runner).unwrap().current();
            for mode in [PosMode::Any, PosMode::GameStart] {
                let p = build_pos(&r, mode);
                assert!(p.board.traps_legal() || r.keep_hanging);
                assert!(p.board.within_complement());
                if mode == PosMode::GameStart {
                    assert!(p.board.has_rabbit(true) && p.board.has_rabbit(false));
                    assert!(!p.board.rabbit_on_goal(true) && !p.board.rabbit_on_goal(false));
                }
                *sizes.entry(p.board.piece_count() / 4).or_insert(0) += 1;
            }
        }
        assert!(sizes.len() >= 6, "{:?}", sizes);
    }
}

#[cfg(test)]
mod open_stats {
    use super::*;
    use proptest::strategy::ValueTree;
    use proptest::test_runner::{Config, RngSeed, TestRunner};
    #[test]
    #[ignore]
    fn open_positions_action_counts() {
        let mut runner = TestRunner::new(Config { rng_seed: RngSeed::Fixed(5), ..Config::default() });
        let mut hist = std::collections::BTreeMap::new();
        let mut best = (0, String::new());
        for _ in 0..5000 {
            let o = open().new_tree(&mut runner).unwrap().current();
            let mo = crate::model::Model::from_position(o.board, o.gold_to_move, 2);
            let n = mo.offered_norep().len();
            *hist.entry(n / 8 * 8).or_insert(0) += 1;
            if n > best.0 {
                best = (n, crate::core::board_text(&o.board));
            }
        }
        println!("{:?} best {:?}", hist, best);
    }
}
