//! Generators (DESIGN.md §3.2). All randomness comes from proptest strategies; the
//! functions below are pure maps from raw generated values to sound inputs (legal
//! positions, legal setup orders, selectors into *offered* action lists).

use crate::model::{self as m, Board};
use proptest::prelude::*;

#[derive(Clone, Debug, PartialEq, Eq)]
pub struct PosSpec {
    pub board: Board,
    pub gold_to_move: bool,
    pub move_number: usize,
}

#[derive(Clone, Debug, PartialEq, Eq)]
pub enum Start {
    Setup,
    Pos(PosSpec),
}

/// One generated game: a start and a list of (selector, bias) pairs, each resolved against the
/// list of actions the engine offers at that point.
#[derive(Clone, Debug)]
pub struct Case {
    pub start: Start,
    pub ops: Vec<(u16, u8)>,
    /// seed for the sampling decisions of the turn-tree expander (pure function of the case)
    pub aux: u64,
}

#[derive(Clone, Debug)]
pub struct RawPos {
    pub full: bool,
    pub same_types: u8,
    pub picks: Vec<(u8, u8, u8)>,
    pub gold_to_move: bool,
    pub mn_sel: u8,
}

const FULL_ORDER: [u8; 16] =
    [m::E, m::M, m::H, m::H, m::D, m::D, m::C, m::C, m::R, m::R, m::R, m::R, m::R, m::R, m::R, m::R];
const KIND_TABLE: [u8; 16] =
    [m::R, m::R, m::R, m::R, m::R, m::C, m::C, m::D, m::D, m::H, m::H, m::M, m::E, m::R, m::C, m::E];

pub fn move_number_from(sel: u8) -> usize {
    match sel % 16 {
        0 => 0,
        1 => 1,
        2..=5 => 2,
        6 => 3,
        7..=11 => 2 + (sel as usize / 16) * 3,
        12 => 1_000_000,
        13 => 1_000_000_000_000,
        14 => 4_294_967_295,
        _ => 17,
    }
}

#[derive(Clone, Copy, Debug, PartialEq, Eq)]
pub enum PosMode {
    /// any legal position (rabbits may stand on goal ranks, a side may lack rabbits)
    Any,
    /// start of a game that should not be over at once: no rabbit on its goal rank, both sides
    /// have a rabbit
    GameStart,
}

/// Pure map raw -> legal position (legalised by construction, no rejection).
pub fn build_pos(raw: &RawPos, mode: PosMode) -> PosSpec {
    let mut b = Board::empty();
    let mut counts = [[0u8; 7]; 2];
    let mut placed: Vec<u8> = vec![];
    for (j, &(sqsel, codesel, flags)) in raw.picks.iter().enumerate() {
        // ---- which piece
        let (gold, k) = if raw.full {
            let j = j % 32;
            (j < 16, FULL_ORDER[j % 16])
        } else {
            let gold = codesel & 1 == 0;
            let mut k = KIND_TABLE[((codesel >> 1) & 15) as usize];
            if raw.same_types != 0 {
                // both sides get the same two kinds, so equal-strength contacts are common
                let a = 1 + (raw.same_types % 6);
                let bb = 1 + ((raw.same_types / 6) % 6);
                k = if (codesel >> 1) & 1 == 0 { a } else { bb };
            }
            (gold, k)
        };
        // respect the complement: try the other kinds, then the other side
        let mut chosen = None;
        'outer: for side_try in 0..2 {
            let g = if side_try == 0 { gold } else { !gold };
            for dk in 0..6u8 {
                let kk = 1 + ((k - 1 + dk) % 6);
                if counts[g as usize][kk as usize] < m::COMPLEMENT[kk as usize] {
                    chosen = Some((g, kk));
                    break 'outer;
                }
            }
        }
        let (gold, k) = match chosen {
            Some(c) => c,
            None => break,
        };
        // ---- which square
        let mut cands: Vec<u8> = vec![];
        match flags & 3 {
            0 | 1 if !placed.is_empty() => {
                for &p in placed.iter() {
                    for n in m::neighbours(p) {
                        if b.at(n) == m::EMPTY && !cands.contains(&n) {
                            cands.push(n);
                        }
                    }
                }
                cands.sort();
            }
            2 => {
                for &t in m::TRAPS.iter() {
                    if b.at(t) == m::EMPTY {
                        cands.push(t);
                    }
                    for n in m::neighbours(t) {
                        if b.at(n) == m::EMPTY && !cands.contains(&n) {
                            cands.push(n);
                        }
                    }
                }
                cands.sort();
            }
            _ => {}
        }
        if flags & 4 != 0 {
            let edge: Vec<u8> = (if cands.is_empty() { (0..64).collect::<Vec<u8>>() } else { cands.clone() })
                .into_iter()
                .filter(|&s| b.at(s) == m::EMPTY && matches!(m::rank_of(s), 1 | 2 | 7 | 8))
                .collect();
            if !edge.is_empty() {
                cands = edge;
            }
        }
        if cands.is_empty() {
            cands = (0..64u8).filter(|&s| b.at(s) == m::EMPTY).collect();
        }
        if cands.is_empty() {
            break;
        }
        let sq = cands[(sqsel as usize * cands.len()) >> 8];
        b.0[sq as usize] = m::mk(gold, k);
        counts[gold as usize][k as usize] += 1;
        placed.push(sq);
    }
    // ---- legalise: nothing unsupported on a trap (traps are never adjacent to each other, so one
    // pass suffices)
    for &t in m::TRAPS.iter() {
        let c = b.at(t);
        if c != m::EMPTY && !b.has_friend_adjacent(t, m::is_gold(c)) {
            b.0[t as usize] = m::EMPTY;
        }
    }
    if mode == PosMode::GameStart {
        for f in 0..8u8 {
            if b.at(f) == m::mk(true, m::R) {
                b.0[f as usize] = m::EMPTY;
            }
            if b.at(56 + f) == m::mk(false, m::R) {
                b.0[(56 + f) as usize] = m::EMPTY;
            }
        }
        for gold in [true, false] {
            if !b.has_rabbit(gold) {
                // first empty non-trap square on the side's second/third rank that does not need support
                let rows: [u8; 2] = if gold { [6, 5] } else { [1, 2] };
                let off = raw.mn_sel % 8;
                'place: for r in rows {
                    for i in 0..8u8 {
                        let s = r * 8 + (i + off) % 8;
                        if b.at(s) == m::EMPTY && !m::is_trap(s) {
                            b.0[s as usize] = m::mk(gold, m::R);
                            break 'place;
                        }
                    }
                }
            }
        }
    }
    debug_assert!(b.traps_legal() && b.within_complement());
    PosSpec { board: b, gold_to_move: raw.gold_to_move, move_number: move_number_from(raw.mn_sel) }
}

fn pick() -> impl Strategy<Value = (u8, u8, u8)> {
    (any::<u8>(), any::<u8>(), any::<u8>())
}

/// Raw positions: 15 % full armies, 50 % sparse (1-6 pieces), 35 % medium.
pub fn raw_pos() -> impl Strategy<Value = RawPos> {
    let body = prop_oneof![
        15 => (Just(true), Just(0u8), prop::collection::vec(pick(), 32..=32)),
        38 => (Just(false), Just(0u8), prop::collection::vec(pick(), 1..=6)),
        12 => (Just(false), 1u8..=35, prop::collection::vec(pick(), 2..=8)),
        35 => (Just(false), prop_oneof![4 => Just(0u8), 1 => 1u8..=35], prop::collection::vec(pick(), 7..=24)),
    ];
    (body, any::<bool>(), any::<u8>()).prop_map(|((full, same_types, picks), g, mn)| RawPos {
        full,
        same_types,
        picks,
        gold_to_move: g,
        mn_sel: mn,
    })
}

/// Raw positions with few pieces, for recurrence-heavy games.
pub fn raw_pos_small() -> impl Strategy<Value = RawPos> {
    (prop::collection::vec(pick(), 2..=6), 0u8..=35, any::<bool>(), any::<u8>()).prop_map(
        |(picks, st, g, mn)| RawPos {
            full: false,
            same_types: if st < 12 { 0 } else { st },
            picks,
            gold_to_move: g,
            mn_sel: mn,
        },
    )
}

pub fn pos(mode: PosMode) -> impl Strategy<Value = PosSpec> {
    raw_pos().prop_map(move |r| build_pos(&r, mode))
}

#[derive(Clone, Copy, Debug)]
pub struct GameParams {
    pub max_ops: usize,
    /// weights of the start kinds
    pub w_setup: u32,
    pub w_pos: u32,
    pub w_small: u32,
}

pub fn game(p: GameParams) -> impl Strategy<Value = Case> {
    let start = prop_oneof![
        p.w_setup => Just(Start::Setup),
        p.w_pos => raw_pos().prop_map(|r| Start::Pos(build_pos(&r, PosMode::GameStart))),
        p.w_small => raw_pos_small().prop_map(|r| Start::Pos(build_pos(&r, PosMode::GameStart))),
    ];
    (start, prop::collection::vec((any::<u16>(), any::<u8>()), 0..=p.max_ops), any::<u64>())
        .prop_map(|(start, ops, aux)| Case { start, ops, aux })
}

#[cfg(test)]
mod tests {
    use super::*;
    use proptest::strategy::ValueTree;
    use proptest::test_runner::{Config, RngSeed, TestRunner};

    #[test]
    fn positions_are_legal() {
        let mut runner = TestRunner::new(Config { rng_seed: RngSeed::Fixed(7), ..Config::default() });
        let mut sizes = std::collections::BTreeMap::new();
        for _ in 0..2000 {
            let r = raw_pos().new_tree(&mut runner).unwrap().current();
            for mode in [PosMode::Any, PosMode::GameStart] {
                let p = build_pos(&r, mode);
                assert!(p.board.traps_legal());
                assert!(p.board.within_complement());
                if mode == PosMode::GameStart {
                    assert!(p.board.has_rabbit(true) && p.board.has_rabbit(false));
                    assert!(!p.board.rabbit_on_goal(true) && !p.board.rabbit_on_goal(false));
                }
                *sizes.entry(p.board.piece_count() / 4).or_insert(0) += 1;
            }
        }
        assert!(sizes.len() >= 6, "{:?}", sizes);
    }
}
