//! C15 (text half) and C16: parsers and notation.

use crate::core::*;
use crate::ensure;
use crate::gen::{self, PosMode};
use crate::model as m;
use arimaa_engine_step::{map_bit_board_to_squares, Action, Direction, GameState, Piece, Square};
use proptest::prelude::*;
use serde_json::json;
use std::str::FromStr;

// =====================================================================================
// C16
// =====================================================================================

/// Alphabet that contains every boundary of the notation (DESIGN.md C16).
pub const ALPHABET: [char; 26] = [
    'a', 'h', 'i', '`', 'A', 'H', '1', '8', '0', '9', 'n', 'e', 's', 'w', 'p', 'r', 'R', 'x', 'N', ' ', '\0',
    '\u{e9}',    // 2-byte
    '\u{20ac}',  // 3-byte
    '\u{1f600}', // 4-byte
    '\u{161}',   // low byte is 'a'
    '\u{663}',   // non-ASCII digit
];

/// Reference grammar of action notation, written independently of the parser.
pub fn grammar_action(s: &str) -> bool {
    let cs: Vec<char> = s.chars().collect();
    match cs.len() {
        1 => "pEMHDCRemhdcr".contains(cs[0]),
        3 => ('a'..='h').contains(&cs[0]) && ('1'..='8').contains(&cs[1]) && "nesw".contains(cs[2]),
        _ => false,
    }
}
pub fn grammar_square(s: &str) -> bool {
    let cs: Vec<char> = s.chars().collect();
    cs.len() == 2 && ('a'..='h').contains(&cs[0]) && ('1'..='8').contains(&cs[1])
}
pub fn grammar_piece(s: &str) -> bool {
    let cs: Vec<char> = s.chars().collect();
    cs.len() == 1 && "EMHDCRemhdcr".contains(cs[0])
}
pub fn grammar_direction(s: &str) -> bool {
    let cs: Vec<char> = s.chars().collect();
    cs.len() == 1 && "nesw".contains(cs[0])
}

fn is_upper_piece_letter(s: &str) -> bool {
    s.len() == 1 && "EMHDCR".contains(s)
}

/// All oracle clauses for one string. Returns whether the string was "non-trivial".
pub fn c16_string(s: &str, st: &mut Stats) -> Check {
    st.eval();
    let shown = format!("{:?}", s);
    // ---- Action
    let r = guard(|| Action::from_str(s).ok()).map_err(|p| Fail::new("C16:action_parse_panic", format!("Action::from_str({}) panicked: {}", shown, p)))?;
    match r {
        Some(a) => {
            let printed = guard(|| a.to_string()).map_err(|p| Fail::new("C16:print_panic", p))?;
            ensure!(printed == s || (is_upper_piece_letter(s) && printed == s.to_lowercase()), "C16:action_accepts_non_printed_form", "Action::from_str({}) succeeded with a value that prints as {:?}", shown, printed);
            st.bump("action_strings_accepted");
        }
        None => {
            ensure!(!grammar_action(s), "C16:action_rejects_valid", "Action::from_str({}) failed although the string is valid notation", shown);
        }
    }
    // ---- Square
    let r = guard(|| Square::from_str(s).ok()).map_err(|p| Fail::new("C16:square_parse_panic", format!("Square::from_str({}) panicked: {}", shown, p)))?;
    match r {
        Some(q) => {
            let printed = guard(|| q.to_string()).map_err(|p| Fail::new("C16:print_panic", p))?;
            ensure!(printed == s, "C16:square_accepts_non_printed_form", "Square::from_str({}) succeeded with a square that prints as {:?}", shown, printed);
            st.bump("square_strings_accepted");
        }
        None => ensure!(!grammar_square(s), "C16:square_rejects_valid", "Square::from_str({}) failed although the string is a valid square", shown),
    }
    // ---- Piece
    let r = guard(|| Piece::from_str(s).ok()).map_err(|p| Fail::new("C16:piece_parse_panic", format!("Piece::from_str({}) panicked: {}", shown, p)))?;
    match r {
        Some(p) => {
            let printed = p.to_string();
            ensure!(printed == s || (is_upper_piece_letter(s) && printed == s.to_lowercase()), "C16:piece_accepts_non_printed_form", "Piece::from_str({}) succeeded with a piece that prints as {:?}", shown, printed);
        }
        None => ensure!(!grammar_piece(s), "C16:piece_rejects_valid", "Piece::from_str({}) failed", shown),
    }
    // ---- Direction
    let r = guard(|| Direction::from_str(s).ok()).map_err(|p| Fail::new("C16:direction_parse_panic", format!("Direction::from_str({}) panicked: {}", shown, p)))?;
    match r {
        Some(d) => {
            let printed = d.to_string();
            ensure!(printed == s, "C16:direction_accepts_non_printed_form", "Direction::from_str({}) succeeded with a direction that prints as {:?}", shown, printed);
        }
        None => ensure!(!grammar_direction(s), "C16:direction_rejects_valid", "Direction::from_str({}) failed", shown),
    }
    // non-trivial: right length and a plausible first character class, so it gets past the length
    // test into slicing / arithmetic
    let cs: Vec<char> = s.chars().collect();
    let plausible = matches!(cs.len(), 1 | 2 | 3) && cs.first().map(|c| c.is_alphabetic() || *c == '`' || !c.is_ascii()).unwrap_or(false);
    if plausible {
        st.nontrivial(fp_str(s));
    }
    Ok(())
}

/// The text of `v` under formatter flags (width with every alignment and two fills, sign, alternate,
/// zero padding); no precision, because truncation is what a precision asks for.
/// Returns (spec, output, permitted fill characters).
pub fn flagged_outputs<T: std::fmt::Display>(v: &T, widths: &[usize]) -> Vec<(String, String, &'static str)> {
    let mut out = vec![];
    for &w in widths {
        out.push((format!("{{:>{}}}", w), format!("{:>w$}", v, w = w), " "));
        out.push((format!("{{:<{}}}", w), format!("{:<w$}", v, w = w), " "));
        out.push((format!("{{:^{}}}", w), format!("{:^w$}", v, w = w), " "));
        out.push((format!("{{:{}}}", w), format!("{:w$}", v, w = w), " "));
        out.push((format!("{{:*>{}}}", w), format!("{:*>w$}", v, w = w), "*"));
        out.push((format!("{{:*<{}}}", w), format!("{:*<w$}", v, w = w), "*"));
        out.push((format!("{{:*^{}}}", w), format!("{:*^w$}", v, w = w), "*"));
        out.push((format!("{{:0{}}}", w), format!("{:0w$}", v, w = w), " 0"));
        out.push((format!("{{:+#0{}}}", w), format!("{:+#0w$}", v, w = w), " 0"));
    }
    out.push(("{:+}".into(), format!("{:+}", v), ""));
    out.push(("{:#}".into(), format!("{:#}", v), ""));
    out.push(("{:+#}".into(), format!("{:+#}", v), ""));
    out
}

/// True if `out` is `plain` with nothing but fill characters before and after it: formatter flags may
/// pad the text as a whole (or be ignored), which leaves the text itself intact.
pub fn is_padded_whole(out: &str, plain: &str, fills: &str) -> bool {
    if out == plain {
        return true;
    }
    let mut from = 0;
    while let Some(pos) = out[from..].find(plain) {
        let a = from + pos;
        let (pre, post) = (&out[..a], &out[a + plain.len()..]);
        for f in fills.chars() {
            if pre.chars().all(|c| c == f) && post.chars().all(|c| c == f) {
                return true;
            }
        }
        from = a + 1;
        while from < out.len() && !out.is_char_boundary(from) {
            from += 1;
        }
        if from >= out.len() {
            break;
        }
    }
    false
}

/// A sink that accepts `0` bytes and then fails.
pub struct FailingSink(pub usize);
impl std::fmt::Write for FailingSink {
    fn write_str(&mut self, x: &str) -> std::fmt::Result {
        if x.len() > self.0 {
            self.0 = 0;
            Err(std::fmt::Error)
        } else {
            self.0 -= x.len();
            Ok(())
        }
    }
}

/// A sink that accepts `0` bytes and then panics.
pub struct PanickingSink(pub usize);
impl std::fmt::Write for PanickingSink {
    fn write_str(&mut self, x: &str) -> std::fmt::Result {
        if x.len() > self.0 {
            panic!("sink closed");
        }
        self.0 -= x.len();
        Ok(())
    }
}

/// Printing into a sink that fails part-way must leave nothing behind: the next print of the value (and
/// of the value printed before it) is the plain text again.
fn c16_after_failing_sink<T: std::fmt::Display>(v: &T, plain: &str, what: &str, st: &mut Stats) -> Check {
    use std::fmt::Write as _;
    for limit in 0..plain.len() {
        st.eval();
        let again = guard(|| {
            let mut w = FailingSink(limit);
            let _ = write!(w, "{}", v);
            v.to_string()
        })
        .map_err(|p| Fail::new("C16:print_panic", format!("{} {:?} into a failing sink: {}", what, plain, p)))?;
        ensure!(again == plain, "C16:print_after_failed_write", "{} {:?} prints as {:?} after a print of it into a sink that failed after {} bytes", what, plain, again, limit);
        let _ = guard(|| {
            let mut w = PanickingSink(limit);
            let _ = write!(w, "{}", v);
        });
        let again = guard(|| v.to_string()).map_err(|p| Fail::new("C16:print_panic", format!("{} {:?} after a panicking sink: {}", what, plain, p)))?;
        ensure!(again == plain, "C16:print_after_failed_write", "{} {:?} prints as {:?} after a print of it into a sink that panicked after {} bytes (the panic was contained)", what, plain, again, limit);
    }
    st.bump("values_printed_after_failing_sink");
    Ok(())
}

/// Printing from unusual call sites: from the destructor of a thread-local while the thread exits (a
/// per-thread move log flushing itself), and from inside the very writer an action is being printed
/// into (a writer that annotates what it receives).
fn c16_call_sites(actions: &[Action], st: &mut Stats) -> Check {
    let want: Vec<String> = actions.iter().map(action_text).collect();
    let (a1, a2) = (actions.to_vec(), actions.to_vec());
    let r = in_tls_destructor(
        move || {
            for a in a1.iter() {
                let _ = a.to_string();
            }
            let _ = Square::from_index(9).to_string();
        },
        move || guard(|| (a2.iter().map(|a| a.to_string()).collect::<Vec<_>>(), Square::from_index(9).to_string(), Piece::Horse.to_string(), Direction::Left.to_string())),
    );
    match r {
        Some(Ok((texts, sq, pc, dr))) => {
            st.eval();
            for (t, w) in texts.iter().zip(want.iter()) {
                ensure!(t == w, "C16:action_print", "printed from a thread-local destructor at thread exit, action {:?} prints as {:?}", w, t);
            }
            ensure!(sq == "b7" && pc == "h" && dr == "w", "C16:square_print", "printed from a thread-local destructor at thread exit: square b7 as {:?}, horse as {:?}, left as {:?}", sq, pc, dr);
            st.bump("values_printed_from_a_thread_local_destructor");
        }
        Some(Err(p)) => return Err(Fail::new("C16:print_panic", format!("printing from a thread-local destructor at thread exit panicked: {}", p))),
        None => st.bump("thread_local_destructor_probe_did_not_run"),
    }
    struct Annotating {
        out: String,
        other: Action,
    }
    impl std::fmt::Write for Annotating {
        fn write_str(&mut self, x: &str) -> std::fmt::Result {
            // the writer prints another action of its own while it receives one
            let note = self.other.to_string();
            self.out.push_str(x);
            if note.is_empty() {
                return Err(std::fmt::Error);
            }
            Ok(())
        }
    }
    for (i, a) in actions.iter().enumerate() {
        use std::fmt::Write as _;
        st.eval();
        let other = actions[(i * 7 + 3) % actions.len()];
        let got = guard(|| {
            let mut w = Annotating { out: String::new(), other };
            let _ = write!(w, "{}", a);
            w.out
        })
        .map_err(|p| Fail::new("C16:print_panic", format!("action {:?} printed into a writer that itself prints an action: {}", want[i], p)))?;
        ensure!(got == want[i], "C16:action_print", "action {:?} printed into a writer that itself prints an action comes out as {:?}", want[i], got);
    }
    st.bump("values_printed_into_a_writer_that_prints");
    Ok(())
}

/// C16 under formatter flags: the text printed with a width / alignment / sign / alternate flag is the
/// plain text (possibly padded as a whole), or at least still parses back to the same value.
fn c16_flagged<T: std::fmt::Display + PartialEq>(v: &T, plain: &str, what: &str, parse: impl Fn(&str) -> Option<T>, st: &mut Stats) -> Check {
    let outs = guard(|| flagged_outputs(v, &[0, 1, 2, 3, 4, 6, 9])).map_err(|p| Fail::new("C16:print_panic", format!("{} {:?} under formatter flags: {}", what, plain, p)))?;
    for (spec, out, fills) in outs {
        st.eval();
        if is_padded_whole(&out, plain, fills) {
            if out != plain {
                st.bump("flagged_output_padded_whole");
            }
            continue;
        }
        let back = guard(|| parse(&out)).map_err(|p| Fail::new("C16:parse_panic", format!("{:?}: {}", out, p)))?;
        ensure!(back.as_ref() == Some(v), "C16:flagged_print", "{} {:?} printed with {} gives {:?}, which is neither the plain text (padded as a whole) nor parses back to the value", what, plain, spec, out);
        st.bump("flagged_output_differs_but_parses_back");
    }
    Ok(())
}

/// Value round trips, exhaustive over all 263 actions / 64 squares / 6 pieces / 4 directions.
pub fn c16_values(st: &mut Stats) -> Check {
    let dirs = [Direction::Up, Direction::Right, Direction::Down, Direction::Left];
    let dchars = ['n', 'e', 's', 'w'];
    let mut actions: Vec<Action> = vec![Action::Pass];
    for p in ENGINE_PIECES.iter() {
        actions.push(Action::Place(*p));
    }
    for i in 0..64u8 {
        for d in dirs.iter() {
            actions.push(Action::Move(Square::from_index(i), *d));
        }
    }
    ensure!(actions.len() == 263, "harness", "263 actions expected");
    for a in actions.iter() {
        st.eval();
        let text = guard(|| a.to_string()).map_err(|p| Fail::new("C16:print_panic", p))?;
        let want = action_text(a);
        ensure!(text == want, "C16:action_print", "action prints as {:?}, expected {:?}", text, want);
        let back = guard(|| Action::from_str(&text)).map_err(|p| Fail::new("C16:action_parse_panic", format!("{:?}: {}", text, p)))?;
        ensure!(matches!(&back, Ok(b) if b == a), "C16:action_round_trip", "{:?} parses back to {:?}", text, back.map(|b| b.to_string()));
        let dbg = format!("{:?}", a);
        ensure!(dbg == text, "C16:action_debug", "Debug form {:?} differs from Display {:?}", dbg, text);
        c16_flagged(a, &text, "action", |t| Action::from_str(t).ok(), st)?;
        c16_after_failing_sink(a, &text, "action", st)?;
        st.nontrivial(fp_str(&text));
    }
    c16_call_sites(&actions, st)?;
    for i in 0..64u8 {
        st.eval();
        let q = Square::from_index(i);
        let file = (b'a' + i % 8) as char;
        let rank = 8 - i / 8;
        let want = format!("{}{}", file, rank);
        let r = guard(|| (q.to_string(), q.index(), q.as_bit_board(), q.column_char(), q.row(), Square::from_bit_board(1u64 << i), Square::new(file, rank as usize), Square::from_str(&want).ok()))
            .map_err(|p| Fail::new("C16:square_panic", format!("square {}: {}", want, p)))?;
        ensure!(r.0 == want, "C16:square_print", "square index {} prints as {:?}, expected {:?}", i, r.0, want);
        ensure!(r.1 == i as usize, "C16:square_index", "index() of square {} is {}", i, r.1);
        ensure!(r.2 == 1u64 << i, "C16:square_bit", "as_bit_board of {} is {:#x}", want, r.2);
        ensure!(r.3 == file && r.4 == rank, "C16:square_file_rank", "column_char/row of {} are {}{}", want, r.3, r.4);
        ensure!(r.5 == q, "C16:from_bit_board", "from_bit_board(1<<{}) is {}", i, r.5);
        ensure!(r.6 == q, "C16:square_new", "Square::new({},{}) is {}", file, rank, r.6);
        ensure!(r.7 == Some(q), "C16:square_round_trip", "{:?} parses to {:?}", want, r.7.map(|x| x.to_string()));
        ensure!(Square::from_index(r.1 as u8) == q && Square::from_bit_board(r.2) == q, "C16:square_inverse", "conversions of {} are not mutually inverse", want);
        let single = guard(|| map_bit_board_to_squares(1u64 << i)).map_err(|p| Fail::new("C16:map_panic", p))?;
        ensure!(single == vec![q], "C16:map_single_bit", "map_bit_board_to_squares(1<<{}) = {:?}", i, single);
        c16_flagged(&q, &want, "square", |t| Square::from_str(t).ok(), st)?;
        c16_after_failing_sink(&q, &want, "square", st)?;
    }
    for (k, p) in ENGINE_PIECES.iter().enumerate() {
        st.eval();
        let text = p.to_string();
        let want = ['r', 'c', 'd', 'h', 'm', 'e'][k].to_string();
        ensure!(text == want, "C16:piece_print", "{:?} prints as {:?}", p, text);
        ensure!(Piece::from_str(&text).ok() == Some(*p), "C16:piece_round_trip", "{:?} does not parse back", text);
        ensure!(Piece::from_str(&text.to_uppercase()).ok() == Some(*p), "C16:piece_upper", "{:?} does not parse", text.to_uppercase());
        c16_flagged(p, &text, "piece", |t| Piece::from_str(t).ok(), st)?;
        c16_after_failing_sink(p, &text, "piece", st)?;
    }
    for (k, d) in dirs.iter().enumerate() {
        st.eval();
        let text = d.to_string();
        ensure!(text == dchars[k].to_string(), "C16:direction_print", "{:?} prints as {:?}", d, text);
        ensure!(Direction::from_str(&text).ok() == Some(*d), "C16:direction_round_trip", "{:?} does not parse back", text);
        c16_flagged(d, &text, "direction", |t| Direction::from_str(t).ok(), st)?;
        c16_after_failing_sink(d, &text, "direction", st)?;
    }
    Ok(())
}

/// Dictionary strings: what a lenient parser might accept although it is not the printed form - spelled
/// out directions and pieces, other notations for a step (official Arimaa notation with the piece letter
/// in front, capture marks, separators, destination squares), alone and combined with every square.
/// Returns the first failing string.
pub fn c16_dictionary(st: &mut Stats) -> Result<(), (Fail, String)> {
    let words: Vec<&str> = vec![
        "north", "east", "south", "west", "North", "NORTH", "up", "down", "left", "right", "Up", "u", "d", "l", "forward", "back", "nn", "ne", "nw", "se", "sw", "n.", "n ", " n", "n\n", "->n",
        "rabbit", "cat", "dog", "horse", "camel", "elephant", "Rabbit", "RABBIT", "Elephant", "gold", "silver", "g", "G", "b",
        "pass", "Pass", "PASS", "p.", "pp", "p ", " p", "resign", "takeback", "x", "X", "+", "-", "=", "*", "#", "?", "!", "0", "1", "00", "ok", "none", "None", "null", "",
    ];
    let seps = ["", " ", "-", ">", "->", ":", "_", "x", ",", "/", "\t"];
    let pieces = ["", "r", "c", "d", "h", "m", "e", "R", "C", "D", "H", "M", "E"];
    let mut check = |t: &str, st: &mut Stats| -> Result<(), (Fail, String)> { c16_string(t, st).map_err(|f| (f, t.to_string())) };
    for w in words.iter() {
        check(w, st)?;
    }
    for i in 0..64u8 {
        let sq = format!("{}{}", (b'a' + i % 8) as char, 8 - i / 8);
        for w in words.iter() {
            for sep in seps.iter() {
                check(&format!("{}{}{}", sq, sep, w), st)?;
            }
            check(&format!("{}{}", w, sq), st)?;
        }
        for p in pieces.iter() {
            for d in ["n", "e", "s", "w", "x", ""] {
                // official notation: piece letter, square, direction or capture mark
                check(&format!("{}{}{}", p, sq, d), st)?;
                check(&format!("{}{}{} ", p, sq, d), st)?;
            }
        }
        // a step written as origin and destination
        for j in [i.wrapping_sub(8), i + 8, i.wrapping_sub(1), i + 1] {
            if j < 64 {
                let to = format!("{}{}", (b'a' + j % 8) as char, 8 - j / 8);
                for sep in seps.iter() {
                    check(&format!("{}{}{}", sq, sep, to), st)?;
                }
            }
        }
    }
    st.bump("dictionary_strings_done");
    Ok(())
}

/// Several threads parse and print different valid tokens at the same time for a while (a server that
/// reads moves from many connections): every result must be the token's own value.
pub fn c16_concurrent(millis: u64, st: &mut Stats) -> Check {
    let dirs = [Direction::Up, Direction::Right, Direction::Down, Direction::Left];
    let mut actions: Vec<Action> = vec![Action::Pass];
    for p in ENGINE_PIECES.iter() {
        actions.push(Action::Place(*p));
    }
    for i in 0..64u8 {
        for d in dirs.iter() {
            actions.push(Action::Move(Square::from_index(i), *d));
        }
    }
    let texts: Vec<String> = actions.iter().map(action_text).collect();
    let shared = std::sync::Arc::new((actions, texts));
    let deadline = std::time::Instant::now() + std::time::Duration::from_millis(millis);
    let hs: Vec<_> = (0..6usize)
        .map(|t| {
            let shared = shared.clone();
            std::thread::spawn(move || -> Result<u64, String> {
                let (actions, texts) = &*shared;
                let mut n = 0u64;
                let mut i = t * 41;
                while std::time::Instant::now() < deadline {
                    for _ in 0..2000 {
                        i = (i + 1 + t) % actions.len();
                        match Action::from_str(&texts[i]) {
                            Ok(a) if a == actions[i] => {}
                            Ok(a) => return Err(format!("{:?} parsed as {} while other threads were parsing other tokens", texts[i], action_text(&a))),
                            Err(_) => return Err(format!("{:?} was rejected while other threads were parsing other tokens", texts[i])),
                        }
                        if n % 7 == 0 && actions[i].to_string() != texts[i] {
                            return Err(format!("{:?} printed differently while other threads were printing", texts[i]));
                        }
                        n += 1;
                    }
                }
                Ok(n)
            })
        })
        .collect();
    let mut total = 0u64;
    for h in hs {
        match h.join() {
            Ok(Ok(n)) => total += n,
            Ok(Err(e)) => return Err(Fail::new("C16:action_round_trip", e)),
            Err(_) => return Err(Fail::new("C16:action_parse_panic", "a parsing thread panicked while other threads were parsing".into())),
        }
    }
    st.add("tokens_parsed_concurrently", total);
    if !st.frozen {
        st.evaluations += total;
    }
    Ok(())
}

pub fn c16_bitboard(b: u64, st: &mut Stats) -> Check {
    st.eval();
    let got = guard(|| map_bit_board_to_squares(b)).map_err(|p| Fail::new("C16:map_panic", format!("map_bit_board_to_squares({:#x}): {}", b, p)))?;
    let want: Vec<u8> = (0..64u8).filter(|i| b & (1u64 << i) != 0).collect();
    let goti: Vec<u8> = got.iter().map(|q| q.index() as u8).collect();
    ensure!(goti == want, "C16:map_bit_board", "map_bit_board_to_squares({:#x}) = {:?}, expected ascending set bits {:?}", b, goti, want);
    if b.count_ones() >= 2 {
        st.nontrivial(mix64(b));
    }
    Ok(())
}

/// All strings of length <= max_len over ALPHABET, split over `shards` by first symbol index.
pub fn c16_exhaustive_strings(shard: usize, shards: usize, max_len: usize, st: &mut Stats) -> Result<(), (Fail, String)> {
    fn rec(prefix: &mut String, depth: usize, max_len: usize, st: &mut Stats) -> Result<(), (Fail, String)> {
        c16_string(prefix, st).map_err(|f| (f, prefix.clone()))?;
        if depth == max_len {
            return Ok(());
        }
        for c in ALPHABET.iter() {
            prefix.push(*c);
            rec(prefix, depth + 1, max_len, st)?;
            prefix.pop();
        }
        Ok(())
    }
    if shard == 0 {
        c16_string("", st).map_err(|f| (f, String::new()))?;
    }
    for (i, c) in ALPHABET.iter().enumerate() {
        if i % shards != shard {
            continue;
        }
        let mut p = String::new();
        p.push(*c);
        rec(&mut p, 1, max_len, st)?;
    }
    Ok(())
}


/// Every Unicode scalar value, alone and substituted at each position of a valid action / square
/// template (case mappings and digit classes of single exotic characters are where a parser that
/// normalises its input goes wrong). Sharded by code point.
pub fn c16_all_chars(shard: usize, shards: usize, st: &mut Stats) -> Result<(), (Fail, String)> {
    let templates: [&str; 6] = ["a1n", "h8w", "d4s", "a1", "h8", "e"];
    let mut buf = String::new();
    for cp in (shard as u32..=0x10FFFF).step_by(shards) {
        let c = match char::from_u32(cp) {
            Some(c) => c,
            None => continue,
        };
        buf.clear();
        buf.push(c);
        c16_string(&buf, st).map_err(|f| (f, buf.clone()))?;
        for t in templates.iter() {
            let tc: Vec<char> = t.chars().collect();
            for pos in 0..tc.len() {
                buf.clear();
                for (i, ch) in tc.iter().enumerate() {
                    buf.push(if i == pos { c } else { *ch });
                }
                c16_string(&buf, st).map_err(|f| (f, buf.clone()))?;
            }
        }
        // the character in front of, behind and on both sides of something valid (byte order marks,
        // zero-width and exotic white space, quotes, brackets, ...)
        for t in ["a1n", "p", "r", "E", "h8", "w"] {
            for form in 0..3 {
                buf.clear();
                if form != 1 {
                    buf.push(c);
                }
                buf.push_str(t);
                if form != 0 {
                    buf.push(c);
                }
                c16_string(&buf, st).map_err(|f| (f, buf.clone()))?;
            }
        }
    }
    Ok(())
}


/// Strings whose length sits at the wrap-around points of narrow integer types (a parser that keeps
/// the length in a u8 or u16 sees 257 characters as 1): valid tokens followed by filler.
pub fn c16_boundary_lengths(st: &mut Stats) -> Result<(), (Fail, String)> {
    let prefixes = ["", "p", "e", "R", "a1", "h8", "a1n", "h8w", "d4s"];
    let fillers = ['x', ' ', 'n', '1', 'a', '\u{e9}'];
    let mut lens: Vec<usize> = vec![];
    for base in [256usize, 512, 65536, 65536 + 256] {
        for d in 0..6 {
            lens.push(base - 2 + d);
        }
    }
    for &n in lens.iter() {
        for p in prefixes.iter() {
            let pc = p.chars().count();
            if n < pc {
                continue;
            }
            for f in fillers.iter() {
                let mut sx = String::with_capacity(n * 2);
                sx.push_str(p);
                for _ in 0..(n - pc) {
                    sx.push(*f);
                }
                c16_string(&sx, st).map_err(|e| (e, format!("{}<{} x {:?}>", p, n - pc, f)))?;
            }
        }
    }
    Ok(())
}

pub fn c16_long_string() -> impl Strategy<Value = String> {
    let from_alpha = prop::collection::vec(0usize..ALPHABET.len(), 0..12).prop_map(|v| v.into_iter().map(|i| ALPHABET[i]).collect::<String>());
    let near = ("[a-i`A-H][0-9][neswNESWx]", any::<u8>(), any::<char>()).prop_map(|(s, pos, c)| {
        let mut cs: Vec<char> = s.chars().collect();
        let p = pos as usize % 4;
        if p < 3 {
            cs[p] = c;
        } else {
            cs.push(c);
        }
        cs.into_iter().collect::<String>()
    });
    // something valid, a separator, and a tail of mixed-width characters (a whole turn, a comment, a
    // move list pasted where one action is expected)
    let tail_char = prop_oneof![
        4 => prop::sample::select(vec!['a', 'n', '2', ' ', 'p', 'R', 'x', '-']),
        2 => prop::sample::select(vec!['\u{e9}', '\u{2013}', '\u{2658}', '\u{1f600}', '\u{663}', '\u{a0}', '\u{3000}']),
        1 => any::<char>(),
    ];
    let prefixed = ("([a-h][1-8][nesw]|p|[rcdhme]|[a-h][1-8]|[nesw])", prop::sample::select(vec![" ", "  ", "\t", "\n", ",", ";", "", "\u{a0}"]), prop::collection::vec(tail_char, 0..48))
        .prop_map(|(pre, sep, tail)| format!("{}{}{}", pre, sep, tail.into_iter().collect::<String>()));
    prop_oneof![3 => from_alpha, 3 => near, 2 => any::<String>(), 1 => "\\PC{0,6}", 3 => prefixed]
}

// =====================================================================================
// C15 text half
// =====================================================================================

#[derive(Clone, Debug)]
pub struct TextCase {
    pub text: String,
}

const MUT_CHARS: [char; 24] = ['|', '\n', ' ', 'x', 'X', 'R', 'r', 'E', 'e', 'g', 's', 'w', 'b', '0', '9', '\u{663}', '\u{e9}', '\u{1f600}', '\u{161}', '+', '-', '\t', '\r', 'Q'];

fn mutate(text: &str, muts: &[(u8, u16, u16)]) -> String {
    let mut cs: Vec<char> = text.chars().collect();
    for &(kind, pos, val) in muts {
        let n = cs.len();
        let at = if n == 0 { 0 } else { (pos as usize * n) >> 16 };
        let ch = MUT_CHARS[val as usize % MUT_CHARS.len()];
        match kind % 12 {
            0 => cs.insert(at.min(n), ch),
            1 => {
                if n > 0 {
                    cs[at] = ch
                }
            }
            2 => {
                if n > 0 {
                    cs.remove(at);
                }
            }
            3 => {
                // digits appended to the move number (front of the text)
                let k = 1 + (val as usize % 30);
                let digit = MUT_CHARS[13 + (pos as usize % 3)];
                let idx = cs.iter().position(|c| !c.is_ascii_digit() && !c.is_whitespace()).unwrap_or(0);
                for _ in 0..k {
                    cs.insert(idx, digit);
                }
            }
            4 => {
                // an extra row before the bottom frame
                let row: String = format!("{}| {} |\n", val % 10, (0..8).map(|i| MUT_CHARS[(val as usize + i * (1 + pos as usize % 5)) % 10].to_string()).collect::<Vec<_>>().join(" "));
                let lines: Vec<usize> = cs.iter().enumerate().filter(|(_, c)| **c == '\n').map(|(i, _)| i + 1).collect();
                let ins = if lines.is_empty() { n } else { lines[(pos as usize * lines.len()) >> 16] };
                for (k, c) in row.chars().enumerate() {
                    cs.insert(ins + k, c);
                }
            }
            5 => {
                // extra cells in a row: insert " R" before a '|' that ends a row
                let pipes: Vec<usize> = cs.iter().enumerate().filter(|(_, c)| **c == '|').map(|(i, _)| i).collect();
                if !pipes.is_empty() {
                    let p = pipes[(pos as usize * pipes.len()) >> 16];
                    for _ in 0..(1 + val % 4) {
                        cs.insert(p, ch);
                        cs.insert(p, ' ');
                    }
                }
            }
            6 => {
                // remove a pipe
                let pipes: Vec<usize> = cs.iter().enumerate().filter(|(_, c)| **c == '|').map(|(i, _)| i).collect();
                if !pipes.is_empty() {
                    cs.remove(pipes[(pos as usize * pipes.len()) >> 16]);
                }
            }
            7 => {
                // case flip
                if n > 0 {
                    let c = cs[at];
                    cs[at] = if c.is_uppercase() { c.to_lowercase().next().unwrap() } else { c.to_uppercase().next().unwrap() };
                }
            }
            8 => {
                // duplicate a whole line
                let text: String = cs.iter().collect();
                let lines: Vec<&str> = text.split_inclusive('\n').collect();
                if !lines.is_empty() {
                    let li = (pos as usize * lines.len()) >> 16;
                    let mut out = String::new();
                    for (i, l) in lines.iter().enumerate() {
                        out.push_str(l);
                        if i == li {
                            for _ in 0..(1 + val % 9) {
                                out.push_str(l);
                            }
                        }
                    }
                    cs = out.chars().collect();
                }
            }
            9 => {
                if val % 3 == 0 {
                    // many empty rows (a row index kept in a narrow integer wraps around after 32 / 256 rows)
                    let k = [24usize, 25, 31, 32, 33, 40, 255, 256, 257][(val as usize / 3) % 9];
                    let row = "0|                 |\n";
                    let lines: Vec<usize> = cs.iter().enumerate().filter(|(_, c)| **c == '\n').map(|(i, _)| i + 1).collect();
                    let ins = if lines.is_empty() { n } else { lines[(pos as usize * lines.len()) >> 16] };
                    let block: Vec<char> = row.repeat(k).chars().collect();
                    let tail = cs.split_off(ins.min(cs.len()));
                    cs.extend(block);
                    cs.extend(tail);
                } else {
                    // truncate
                    cs.truncate(at);
                }
            }
            10 => {
                // drop the header line
                if let Some(p) = cs.iter().position(|c| *c == '\n') {
                    cs.drain(0..=p);
                }
            }
            _ => {
                // shift all cells by inserting one char after a row's opening pipe
                let pipes: Vec<usize> = cs.iter().enumerate().filter(|(_, c)| **c == '|').map(|(i, _)| i).collect();
                if !pipes.is_empty() {
                    let p = pipes[(pos as usize * pipes.len()) >> 16];
                    cs.insert(p + 1, ch);
                }
            }
        }
    }
    cs.into_iter().collect()
}

pub fn c15_text() -> impl Strategy<Value = TextCase> {
    let near = (gen::raw_pos(), prop::collection::vec((any::<u8>(), any::<u16>(), any::<u16>()), 0..5), any::<u8>()).prop_map(|(raw, muts, style)| {
        let p = gen::build_pos(&raw, PosMode::Any);
        let mut text = p.board.diagram(p.move_number, p.gold_to_move);
        match style % 5 {
            0 => text = text.replace('\n', "\n     "), // indented like the doc examples
            1 => text = text.replacen(if p.gold_to_move { 'g' } else { 's' }, if p.gold_to_move { "w" } else { "b" }, 1),
            2 => {
                // no header at all
                if let Some(i) = text.find('\n') {
                    text = text[i + 1..].to_string();
                }
            }
            _ => {}
        }
        TextCase { text: mutate(&text, &muts) }
    });
    let header = ("[ \\t\\n]{0,3}", "[0-9\u{663}\u{966}]{0,30}", "[gswbx ]{0,2}", "\\PC{0,10}").prop_map(|(a, b, c, d)| TextCase { text: format!("{}{}{}|{}|", a, b, c, d) });
    let pipes = prop::collection::vec(prop_oneof![3 => Just("|".to_string()), 2 => "[ RrEexX]{0,20}", 1 => "\\PC{0,4}", 1 => Just("\n".to_string())], 0..60).prop_map(|v| TextCase { text: v.concat() });
    prop_oneof![
        6 => near,
        2 => header,
        2 => pipes,
        1 => any::<String>().prop_map(|text| TextCase { text }),
    ]
}


/// Every Unicode scalar value in a cell, as the side letter and as a move-number digit of an otherwise
/// well-formed diagram: no panic, and whatever is accepted prints to a diagram that parses back to the
/// same print. Sharded by code point.
pub fn c15_all_chars(shard: usize, shards: usize, all_positions: bool, st: &mut Stats) -> Result<(), (Fail, String)> {
    let base = "7g\n +-----------------+\n8| r   d           |\n7|                 |\n6|     x     x     |\n5|                 |\n4|       @         |\n3|     x     x     |\n2|         E       |\n1| R               |\n +-----------------+\n   a b c d e f g h\n";
    for cp in (shard as u32..=0x10FFFF).step_by(shards) {
        let c = match char::from_u32(cp) {
            Some(c) => c,
            None => continue,
        };
        let texts = [base.replace('@', &c.to_string()), base.replace('@', " ").replacen('g', &c.to_string(), 1), base.replace('@', " ").replacen('7', &format!("7{}", c), 1)];
        for text in texts.iter().take(if all_positions || cp < 0x3000 { 3 } else { 1 }) {
            c15_text_check(text, st).map_err(|f| (f, text.clone()))?;
            if let Ok(Ok(g)) = guard(|| text.parse::<GameState>()) {
                let ok = guard(|| {
                    let p = g.to_string();
                    match p.parse::<GameState>() {
                        Ok(q) => q.to_string() == p,
                        Err(_) => false,
                    }
                });
                if ok != Ok(true) {
                    return Err((Fail::new("C15:reprint", format!("the state parsed from a diagram containing {:?} (U+{:04X}) does not print to a diagram that parses back to the same print", c, cp)), text.clone()));
                }
            }
        }
    }
    Ok(())
}

pub fn c15_text_check(text: &str, st: &mut Stats) -> Check {
    st.eval();
    let r = guard(|| text.parse::<GameState>()).map_err(|p| Fail::new("C15:parse_panic", format!("GameState::from_str panicked ({}) on {:?}", p, text)))?;
    let reaches_cells = text.matches('|').count() >= 2;
    let header = {
        let t = text.split('|').next().unwrap_or("").trim_start();
        let digits = t.chars().take_while(|c| c.is_numeric()).count();
        digits > 0 && t.chars().nth(digits).map(|c| "gswb".contains(c)).unwrap_or(false)
    };
    if reaches_cells || header {
        st.nontrivial(fp_str(text));
    }
    match r {
        Ok(g) => {
            st.bump("text_accepted");
            // an accepted text yields a state: it must be a usable start-of-turn state
            let q = guard(|| (g.is_play_phase(), g.current_step(), read_board(g.piece_board()), g.to_string().len()));
            match q {
                Ok((play, step, b, _)) => {
                    ensure!(play && step == 0, "C15:parsed_not_start_of_turn", "parsed state is not a start-of-turn play state for {:?}", text);
                    b.map_err(|e| Fail::new("C15:parsed_board_inconsistent", format!("{} for {:?}", e, text)))?;
                }
                Err(p) => return Err(Fail::new("C15:parsed_state_panics", format!("{} for {:?}", p, text))),
            }
        }
        Err(_) => st.bump("text_rejected"),
    }
    if text.lines().count() > 12 {
        st.bump("text_with_extra_lines");
    }
    if header {
        st.bump("text_with_header");
    }
    Ok(())
}

pub fn golden_c15_texts() -> Vec<String> {
    // the inputs of the defects found in the design phase (regression tier) and the repo's own examples
    let base = m::Board::empty().diagram(2, true);
    let ninth_row = base.replace(" +-----------------+\n   a", "0| R               |\n +-----------------+\n   a");
    let mut many_rows = vec![];
    for k in [23usize, 24, 25, 31, 32, 33, 248, 255, 256, 257] {
        let mut t = String::from("2g\n +-----------------+\n");
        for r in 0..8 {
            t.push_str(&format!("{}|                 |\n", 8 - r));
        }
        t.push_str(&"0|                 |\n".repeat(k));
        t.push_str("0| E R             |\n0| r               |\n +-----------------+\n");
        many_rows.push(t);
        let mut t2 = String::from("2g\n +-----------------+\n8| r e             |\n");
        t2.push_str(&"0|                 |\n".repeat(k));
        t2.push_str("0| E R             |\n +-----------------+\n");
        many_rows.push(t2);
    }
    let mut v = vec![
        base.replacen("2g", "99999999999999999999999999g", 1),
        base.replacen("2g", "\u{663}g", 1),
        ninth_row,
        base.replace("1|                 |", "1|               R R |"),
        "|".repeat(40),
        String::new(),
        "2g\n +-----------------+\n8| h c d m e d c h |\n7| r r r r r r r r |\n6|     x     x     |\n5|                 |\n4|                 |\n3|     x     x     |\n2| R R R R R R R R |\n1| H C D M E D C H |\n +-----------------+\n   a b c d e f g h".to_string(),
    ];
    v.extend(many_rows);
    v
}

pub fn golden_c16_strings() -> Vec<&'static str> {
    vec!["a\u{e9}n", "A1n", "A1", "`1", "\n8\n", "\u{161}1", "\u{161}1n", "a1n", "h8w", "p", "E", "i1n", "a9n", "a0n", "a1x", "\u{1f600}\u{1f600}\u{1f600}"]
}

pub fn text_sample(s: &str) -> serde_json::Value {
    json!(s)
}
