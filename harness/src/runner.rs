//! Sharded proptest runner, evidence and replay files, exit codes (DESIGN.md §3.4-3.7).

use crate::core::*;
use crate::drive::{self, Obs, Source, Trace, WalkOpts};
use crate::gen::{self, Case, GameParams, Start};
use arimaa_engine_step::Action;
use proptest::test_runner::{Config, RngSeed, TestCaseError, TestError, TestRunner};
use serde_json::{json, Value};
use std::cell::RefCell;
use std::path::PathBuf;
use std::sync::atomic::{AtomicBool, Ordering};
use std::sync::Arc;
use std::time::Instant;

pub const SHARDS: usize = 16;

#[derive(Clone, Debug)]
pub struct RunCfg {
    pub id: String,
    pub thorough: bool,
    pub seed: u64,
}

pub fn verif_root() -> PathBuf {
    PathBuf::from(std::env::var("VERIF_ROOT").unwrap_or_else(|_| "/verif".into()))
}

pub fn shard_seed(seed: u64, id: &str, leg: usize, shard: usize) -> u64 {
    mix64(seed ^ fp_str(id) ^ ((leg as u64) << 40) ^ ((shard as u64) << 20))
}

pub fn proptest_config(cases: u32, seed: u64) -> Config {
    let mut c = Config::default();
    c.cases = cases;
    c.failure_persistence = None;
    c.rng_seed = RngSeed::Fixed(seed);
    c.max_shrink_iters = 3000;
    c.max_shrink_time = 0;
    c.verbose = 0;
    c.source_file = None;
    c.max_global_rejects = 1 << 20;
    c
}

pub struct Violation {
    pub fail: Fail,
    pub replay: Value,
}

pub enum Outcome {
    Pass,
    Violation(Violation),
    Inconclusive(String),
}

/// One leg of a walker-based check: a generator configuration + walk options + observer factory.
pub struct Leg {
    pub name: &'static str,
    pub params: GameParams,
    pub opts: WalkOpts,
    pub cases_quick: u32,
    pub cases_thorough: u32,
    pub max_ops_thorough: usize,
    pub mk: fn() -> Box<dyn Obs>,
}

fn profile_name(p: drive::Profile) -> &'static str {
    match p {
        drive::Profile::Normal => "normal",
        drive::Profile::Cycle => "cycle",
        drive::Profile::Fight => "fight",
    }
}
pub fn profile_from(s: &str) -> drive::Profile {
    match s {
        "cycle" => drive::Profile::Cycle,
        "fight" => drive::Profile::Fight,
        _ => drive::Profile::Normal,
    }
}

pub fn replay_json(id: &str, leg: &str, fail: &Fail, start: &Start, trace: &Trace, profile: drive::Profile, seed: u64, shard: usize) -> Value {
    json!({
        "property": id,
        "kind": "game",
        "leg": leg,
        "clause": fail.clause,
        "detail": fail.detail,
        "start": drive::start_json(start),
        "actions": trace.actions.iter().map(action_text).collect::<Vec<_>>(),
        "branch": trace.branch.iter().map(action_text).collect::<Vec<_>>(),
        "fork": trace.fork,
        "profile": profile_name(profile),
        "seed": seed,
        "shard": shard,
    })
}

/// Runs one leg over SHARDS threads. Returns merged statistics or the violation of the lowest shard.
pub fn run_leg(cfg: &RunCfg, leg_idx: usize, leg: &Leg, stats: &mut Stats) -> Outcome {
    let stop = Arc::new(AtomicBool::new(false));
    // thorough = 8 x the quick case count and games up to 2.5 x longer (measured: 2-6 min per property
    // on 16 cores; the libFuzzer campaign comes on top)
    let _ = leg.cases_thorough;
    let cases = if cfg.thorough { leg.cases_quick.saturating_mul(8) } else { leg.cases_quick };
    let mut params = leg.params;
    if cfg.thorough {
        params.max_ops = leg.max_ops_thorough.min(params.max_ops * 5 / 2).max(params.max_ops);
    }
    let results: Vec<(Stats, Option<Result<Violation, String>>)> = std::thread::scope(|sc| {
        let mut hs = vec![];
        for shard in 0..SHARDS {
            let stop = stop.clone();
            let id = cfg.id.clone();
            let seed = cfg.seed;
            let opts = leg.opts;
            let mk = leg.mk;
            let leg_name = leg.name;
            hs.push(sc.spawn(move || {
                install_hook();
                let sseed = shard_seed(seed, &id, leg_idx, shard);
                let mut runner = TestRunner::new(proptest_config(cases, sseed));
                let st = RefCell::new(Stats::default());
                let inconclusive: RefCell<Option<String>> = RefCell::new(None);
                let strategy = gen::game(params);
                let res = runner.run(&strategy, |case: Case| {
                    if stop.load(Ordering::Relaxed) {
                        return Ok(());
                    }
                    let mut obs = mk();
                    let mut s = st.borrow_mut();
                    match drive::run_case(&case, &opts, &mut *obs, &mut s) {
                        Ok((end, trace)) => {
                            if shard == 0 {
                                s.sample(4, || {
                                    let mut j = crate::props::sample_case_json(&case.start, &trace.actions);
                                    j["ended_by"] = json!(end.ended_by);
                                    j["leg"] = json!(leg_name);
                                    j
                                });
                            }
                            s.add("walk_actions_total", end.steps as u64);
                            s.bump("cases");
                            Ok(())
                        }
                        Err(wf) => {
                            if wf.inconclusive {
                                *inconclusive.borrow_mut() = Some(format!("{}: {}", wf.fail.clause, wf.fail.detail));
                                s.bump("cases_inconclusive_start");
                                Ok(())
                            } else {
                                // proptest re-runs the closure while shrinking: stop counting
                                s.frozen = true;
                                Err(TestCaseError::fail(wf.fail.clause.clone()))
                            }
                        }
                    }
                });
                let mut stats = st.into_inner();
                let out = match res {
                    Ok(()) => inconclusive.into_inner().map(Err),
                    Err(TestError::Fail(_, minimal)) => {
                        stop.store(true, Ordering::Relaxed);
                        // re-run the minimal case with a fresh observer to obtain trace and message
                        let mut obs = mk();
                        let mut tmp = Stats::default();
                        let rerun = guard(|| drive::run_case(&minimal, &opts, &mut *obs, &mut tmp).map(|_| ()));
                        let rerun = match rerun {
                            Ok(r) => r,
                            Err(p) => {
                                return (stats, Some(Err(format!("harness panicked while re-running the shrunk case: {}", p))));
                            }
                        };
                        match rerun {
                            Err(wf) if !wf.inconclusive => {
                                let mut replay = replay_json(&id, leg_name, &wf.fail, &minimal.start, &wf.trace, opts.profile, seed, shard);
                                replay["follow_norep"] = json!(opts.follow_norep);
                                replay["play_on"] = json!(opts.play_on);
                                Some(Ok(Violation { replay, fail: wf.fail }))
                            }
                            _ => Some(Err("shrunk case did not fail when re-run (non-deterministic check?)".to_string())),
                        }
                    }
                    Err(TestError::Abort(r)) => Some(Err(format!("proptest aborted: {}", r))),
                };
                stats.frozen = false;
                (stats, out)
            }));
        }
        hs.into_iter().map(|h| h.join().expect("shard thread")).collect()
    });
    let mut first: Option<Result<Violation, String>> = None;
    for (s, out) in results {
        stats.merge(s);
        if first.is_none() {
            if let Some(o) = out {
                first = Some(o);
            }
        } else if let (Some(Err(_)), Some(Ok(v))) = (&first, out) {
            // a real violation outranks an inconclusive note
            first = Some(Ok(v));
        }
    }
    match first {
        None => Outcome::Pass,
        Some(Ok(v)) => Outcome::Violation(v),
        Some(Err(e)) => Outcome::Inconclusive(e),
    }
}

/// Re-executes a game replay with ordinary code (no proptest).
pub fn replay_game(v: &Value, mk: fn() -> Box<dyn Obs>) -> Result<Option<Fail>, String> {
    let start = drive::start_from_json(&v["start"])?;
    let parse_list = |key: &str| -> Result<Vec<Action>, String> {
        v[key].as_array().map(|a| a.iter().map(|x| drive::parse_action_text(x.as_str().unwrap_or(""))).collect()).unwrap_or(Ok(vec![]))
    };
    let actions = parse_list("actions")?;
    let branch = parse_list("branch")?;
    let profile = profile_from(v["profile"].as_str().unwrap_or("normal"));
    let inject = match v["fork"].as_u64() {
        Some(n) => crate::drive::Inject::AtEnd(n as u8),
        None => crate::drive::Inject::No,
    };
    let has_branch = v["branch"].as_array().map(|a| !a.is_empty()).unwrap_or(false);
    let inject = if has_branch { crate::drive::Inject::No } else { inject };
    let opts = WalkOpts { profile, expand: None, follow_norep: v["follow_norep"].as_bool().unwrap_or(false), inject, interfere: false, play_on: v["play_on"].as_bool().unwrap_or(false) };
    let mut obs = mk();
    let mut st = Stats::default();
    // main line
    match drive::walk(&start, Source::Explicit(&actions), 0, &opts, &mut *obs, &mut st) {
        Err(wf) if wf.inconclusive => return Err(wf.fail.detail),
        Err(wf) => return Ok(Some(wf.fail)),
        Ok(_) => {}
    }
    if branch.is_empty() {
        return Ok(None);
    }
    // branch below the main line: re-walk main line silently, then apply the branch in tree mode
    let (mut eng, mut mo) = drive::start_states(&start)?;
    for a in actions.iter() {
        eng = guard(|| eng.take_action(a)).map_err(|e| format!("panic while re-walking: {}", e))?;
        mo.apply(to_maction(a))?;
    }
    let mut obs = mk();
    {
        // observers that need the whole main line (C08 table, C11 images) are approximated by
        // observing the main line again
        let mut st2 = Stats::default();
        let _ = drive::walk(&start, Source::Explicit(&actions), 0, &opts, &mut *obs, &mut st2);
    }
    if v["fork"].as_u64() == Some(drive::VARIANT_TWIN as u64) && branch.len() >= 3 {
        // expand the transposed twin first, then the failing state, back to back
        let n = branch.len();
        let (o1, o2, x) = (branch[n - 3], branch[n - 2], branch[n - 1]);
        for a in branch[..n - 3].iter() {
            eng = guard(|| eng.take_action(a)).map_err(|e| format!("panic: {}", e))?;
            mo.apply(to_maction(a))?;
        }
        let twin = guard(|| eng.take_action(&o2).take_action(&o1)).map_err(|e| format!("panic: {}", e))?;
        let me = guard(|| eng.take_action(&o1).take_action(&o2)).map_err(|e| format!("panic: {}", e))?;
        let (_ct, cm) = guard(|| (twin.take_action(&x), me.take_action(&x))).map_err(|e| format!("panic: {}", e))?;
        let mut mm = mo.clone();
        mm.apply(to_maction(&o1))?;
        mm.apply(to_maction(&o2))?;
        mm.apply(to_maction(&x))?;
        let v1 = drive::View::new(&cm, &mm, true);
        if let Err(f) = obs.on_state(&v1, &mut st) {
            return Ok(Some(f));
        }
        // the variant with disjoint lifetimes: this state is kept, its twin is expanded and dropped with
        // nothing else in between, then this state is rebuilt through the constructors and expanded
        let mut m2 = mo.clone();
        m2.apply(to_maction(&o1))?;
        m2.apply(to_maction(&o2))?;
        let second = guard(|| {
            let b = eng.take_action(&o1).take_action(&o2);
            {
                let a = eng.take_action(&o2).take_action(&o1);
                let c = a.take_action(&x);
                drop(c);
                drop(a);
            }
            drive::fork_with_history(&b, &m2, &[]).map(|r| r.0.take_action(&x))
        })
        .map_err(|e| format!("panic: {}", e))?;
        if let Some(c2) = second {
            let v2 = drive::View::new(&c2, &mm, true);
            return Ok(obs.on_state(&v2, &mut st).err());
        }
        return Ok(None);
    }
    for a in branch.iter() {
        let v0 = drive::View::new(&eng, &mo, true);
        let vanr = v0.vanr().clone().map_err(|e| format!("panic listing actions: {}", e))?;
        if !vanr.contains(a) {
            return Ok(None); // no longer offered: the defect is gone
        }
        let ma = to_maction(a);
        let legal = mo.offered_norep().contains(&ma);
        let next = guard(|| eng.take_action(a)).map_err(|e| format!("panic applying branch action: {}", e))?;
        let mut nm = mo.clone();
        let removed = nm.apply(ma)?;
        let e = drive::Edge { before: &v0, action: a, maction: ma, after_eng: &next, after_m: &nm, removed: &removed, model_legal: legal };
        if let Err(f) = obs.on_edge(&e, &mut st) {
            return Ok(Some(f));
        }
        {
            let v1 = drive::View::new(&next, &nm, true);
            if let Err(f) = obs.on_state(&v1, &mut st) {
                return Ok(Some(f));
            }
        }
        if v["fork"].as_u64() == Some(drive::VARIANT_REBUILD as u64) {
            if let Err((f, _)) = drive::observe_forks(&next, &nm, &[drive::VARIANT_REBUILD], &mut *obs, &mut st) {
                return Ok(Some(f));
            }
        }
        drop(v0);
        eng = next;
        mo = nm;
    }
    Ok(None)
}

// ------------------------------------------------------------------ evidence / files

pub fn write_json(path: &PathBuf, v: &Value) -> std::io::Result<()> {
    if let Some(p) = path.parent() {
        std::fs::create_dir_all(p)?;
    }
    let tmp = path.with_extension("json.tmp");
    std::fs::write(&tmp, serde_json::to_string_pretty(v).unwrap() + "\n")?;
    std::fs::rename(&tmp, path)
}

pub fn write_replay(id: &str, replay: &Value) -> PathBuf {
    let body = serde_json::to_string(replay).unwrap();
    let name = format!("{}-{:016x}.json", id, fp_str(&body));
    let path = verif_root().join("replays").join(name);
    let _ = write_json(&path, replay);
    path
}

pub struct EvidenceInfo<'a> {
    pub rule: &'a str,
    pub assumptions: Vec<String>,
    pub exhaustive: bool,
    pub extra: Value,
}

pub fn write_evidence(cfg: &RunCfg, stats: &Stats, info: &EvidenceInfo, wall_s: f64, violations: u32) {
    let mut coverage = json!({
        "evaluations": stats.evaluations,
        "distinct_nontrivial": stats.nontrivial.len(),
        "rule": info.rule,
        // a run that ends in its first case (a violation found at once) has collected no sample yet
        "samples": if stats.samples.is_empty() { vec![json!({"note": "the run ended before a sample of a passing case was recorded; the failing case is in the replay file"})] } else { stats.samples.clone() },
        "classes": stats.counters,
        "exhaustive": info.exhaustive,
        "shards": SHARDS,
    });
    if let (Some(c), Some(e)) = (coverage.as_object_mut(), info.extra.as_object()) {
        for (k, v) in e {
            c.insert(k.clone(), v.clone());
        }
    }
    let ev = json!({
        "property_id": cfg.id,
        "tier": if cfg.thorough { "thorough" } else { "quick" },
        "seed": cfg.seed,
        "level": "exploration",
        "coverage": coverage,
        "assumptions": info.assumptions,
        "wall_s": wall_s,
        "violations": violations,
    });
    let path = verif_root().join("evidence").join(format!("{}.json", cfg.id));
    if let Err(e) = write_json(&path, &ev) {
        eprintln!("cannot write evidence {}: {}", path.display(), e);
    }
}

/// Known-findings file (KNOWN_FINDINGS.txt): lines `known: property=<id> signature=<sig> <what>`
/// and `fixed: property=<id> <commit> <what>`. Only `known:` lines suppress anything, and only the
/// exact signature they name. Never written at run time.
pub fn known_findings(id: &str) -> Vec<(String, String)> {
    let path = crate::special::verif_root_static().join("KNOWN_FINDINGS.txt");
    let text = match std::fs::read_to_string(&path) {
        Ok(t) => t,
        Err(_) => return vec![],
    };
    let mut out = vec![];
    for l in text.lines() {
        let l = l.trim();
        if let Some(rest) = l.strip_prefix("known:") {
            let rest = rest.trim();
            if let Some(r2) = rest.strip_prefix(&format!("property={} ", id)) {
                if let Some(r3) = r2.trim().strip_prefix("signature=") {
                    let (sig, what) = match r3.find(' ') {
                        Some(i) => (r3[..i].to_string(), r3[i + 1..].to_string()),
                        None => (r3.to_string(), String::new()),
                    };
                    out.push((sig, what));
                }
            }
        }
    }
    out
}

/// Exact signature of a violation: clause + minimal input (hex of a 64-bit fingerprint of the
/// replay's input fields), so a different violation of the same property is still reported.
pub fn violation_signature(replay: &Value) -> String {
    let mut input = String::new();
    for k in ["start", "actions", "branch", "text", "bits", "case", "step", "status_idx"] {
        if let Some(v) = replay.get(k) {
            input.push_str(&v.to_string());
        }
    }
    format!("{}@{:016x}", replay["clause"].as_str().unwrap_or("?"), fp_str(&input))
}

pub fn timer() -> Instant {
    Instant::now()
}
