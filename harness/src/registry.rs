//! Which generators, drivers and budgets decide which property (DESIGN.md §4).

use crate::drive::{ExpandOpts, Obs, Profile, WalkOpts};
use crate::gen::GameParams;
use crate::props::*;
use crate::runner::Leg;

const MIX: GameParams = GameParams { max_ops: 120, w_setup: 1, w_pos: 6, w_small: 3, w_frozen: 0, hanging: false, w_motif: 0, w_open: 0 };
const MIX_LONGSETUP: GameParams = GameParams { max_ops: 160, w_setup: 4, w_pos: 4, w_small: 2, w_frozen: 0, hanging: false, w_motif: 0, w_open: 0 };
const SETUP_ONLY: GameParams = GameParams { max_ops: 40, w_setup: 1, w_pos: 0, w_small: 0, w_frozen: 0, hanging: false, w_motif: 0, w_open: 0 };
const SMALL: GameParams = GameParams { max_ops: 240, w_setup: 0, w_pos: 1, w_small: 8, w_frozen: 0, hanging: false, w_motif: 0, w_open: 0 };
const FROZEN: GameParams = GameParams { max_ops: 240, w_setup: 0, w_pos: 0, w_small: 1, w_frozen: 6, hanging: false, w_motif: 0, w_open: 0 };
const MOTIF: GameParams = GameParams { max_ops: 24, w_setup: 0, w_pos: 0, w_small: 0, w_frozen: 0, hanging: false, w_motif: 1, w_open: 0 };
const OPEN: GameParams = GameParams { max_ops: 12, w_setup: 0, w_pos: 0, w_small: 0, w_frozen: 0, hanging: false, w_motif: 0, w_open: 1 };
const SETUP_CYCLE: GameParams = GameParams { max_ops: 150, w_setup: 1, w_pos: 0, w_small: 0, w_frozen: 0, hanging: false, w_motif: 0, w_open: 0 };
const POS_ONLY: GameParams = GameParams { max_ops: 40, w_setup: 0, w_pos: 7, w_small: 3, w_frozen: 0, hanging: false, w_motif: 0, w_open: 0 };

const TREE: ExpandOpts = ExpandOpts { caps: [0, 10, 5], rate: 40, max_nodes: 6000 };
const TREE_CYCLE: ExpandOpts = ExpandOpts { caps: [0, 8, 4], rate: 48, max_nodes: 4000 };
const TREE_LIGHT: ExpandOpts = ExpandOpts { caps: [0, 6, 3], rate: 24, max_nodes: 2500 };

const fn wi(profile: Profile, expand: Option<ExpandOpts>) -> WalkOpts {
    WalkOpts { profile, expand, follow_norep: false, inject: crate::drive::Inject::Auto, interfere: false, play_on: false }
}

const fn wp(profile: Profile) -> WalkOpts {
    WalkOpts { profile, expand: None, follow_norep: false, inject: crate::drive::Inject::No, interfere: false, play_on: true }
}

const fn wx(profile: Profile) -> WalkOpts {
    WalkOpts { profile, expand: None, follow_norep: false, inject: crate::drive::Inject::No, interfere: true, play_on: false }
}

const fn wr(profile: Profile, expand: Option<ExpandOpts>) -> WalkOpts {
    WalkOpts { profile, expand, follow_norep: false, inject: crate::drive::Inject::Rebuild, interfere: false, play_on: false }
}

const fn wn(profile: Profile) -> WalkOpts {
    WalkOpts { profile, expand: None, follow_norep: true, inject: crate::drive::Inject::No, interfere: false, play_on: false }
}

const fn w(profile: Profile, expand: Option<ExpandOpts>) -> WalkOpts {
    WalkOpts { profile, expand, follow_norep: false, inject: crate::drive::Inject::No, interfere: false, play_on: false }
}

macro_rules! leg {
    ($name:expr, $params:expr, $opts:expr, $q:expr, $t:expr, $maxops_t:expr, $mk:expr) => {
        Leg { name: $name, params: $params, opts: $opts, cases_quick: $q, cases_thorough: $t, max_ops_thorough: $maxops_t, mk: $mk }
    };
}

fn b<T: Obs + 'static>(t: T) -> Box<dyn Obs> {
    Box::new(t)
}

pub fn observer_for(id: &str) -> Option<fn() -> Box<dyn Obs>> {
    Some(match id {
        "C01" => || b(C01),
        "C02" => || b(C02),
        "C03" => || b(C03),
        "C04" => || b(C04),
        "C05" => || b(C05),
        "C06" => || b(C06),
        "C07" => || b(C07),
        "C08" => || b(C08::default()),
        "C09" => || b(C09),
        "C10" => || b(C10::new()),
        "C11" => || b(C11::new()),
        "C12" => || b(C12),
        "C13" => || b(C13),
        "C14" => || b(C14::default()),
        "C15" => || b(C15),
        "C17" => || b(C17),
        "C19" => || b(C19),
        _ => return None,
    })
}

/// Properties whose text covers a start position with a piece hanging on a trap (C10: "once any
/// action has been applied no piece stands on a trap square without an adjacent friendly piece").
pub const HANGING_OK: [&str; 9] = ["C02", "C03", "C05", "C06", "C08", "C10", "C14", "C15", "C19"];

pub fn legs(id: &str) -> Vec<Leg> {
    let mut v = legs_base(id);
    if HANGING_OK.contains(&id) {
        for l in v.iter_mut() {
            l.params.hanging = true;
        }
    }
    v
}

fn legs_base(id: &str) -> Vec<Leg> {
    let mk = match observer_for(id) {
        Some(m) => m,
        None => return vec![],
    };
    match id {
        "C01" => vec![
            leg!("tree_from_positions", POS_ONLY, w(Profile::Fight, Some(TREE)), 60, 1800, 60, mk),
            leg!("tree_along_games", MIX, w(Profile::Fight, Some(TREE_LIGHT)), 40, 1200, 300, mk),
            leg!("false_protection_motif_tree", MOTIF, w(Profile::Fight, Some(TREE)), 150, 1200, 60, mk),
            leg!("rebuilt_states_tree", POS_ONLY, wr(Profile::Fight, Some(TREE_LIGHT)), 40, 320, 60, mk),
            leg!("rebuilt_states_motif_tree", MOTIF, wr(Profile::Fight, Some(TREE)), 100, 800, 60, mk),
            leg!("interference_probe_fight", MIX, wx(Profile::Fight), 400, 3200, 300, mk),
            leg!("interference_probe_motif", MOTIF, wx(Profile::Fight), 300, 2400, 60, mk),
            leg!("open_positions_many_actions", OPEN, w(Profile::Normal, None), 400, 3200, 12, mk),
            leg!("near_immobile_turn_trees", FROZEN, w(Profile::Cycle, Some(TREE)), 40, 1200, 4, mk),
        ],
        "C02" => vec![
            leg!("games_fight", MIX, w(Profile::Fight, Some(TREE_LIGHT)), 480, 14400, 600, mk),
            leg!("games_normal", MIX, w(Profile::Normal, None), 960, 28800, 1500, mk),
            leg!("false_protection_motif_tree", MOTIF, w(Profile::Fight, Some(TREE)), 300, 2400, 60, mk),
            leg!("games_played_on_after_the_result", SMALL, wp(Profile::Normal), 600, 4800, 200, mk),
            leg!("interference_probe_fight", MIX, wx(Profile::Fight), 200, 1600, 300, mk),
            leg!("small_cycle_through_withheld_actions", SMALL, wn(Profile::Cycle), 300, 9000, 600, mk),
        ],
        "C03" => vec![
            leg!("games_normal", MIX_LONGSETUP, w(Profile::Normal, None), 10000, 300000, 1500, mk),
            leg!("games_cycle", SMALL, w(Profile::Cycle, None), 6000, 180000, 1500, mk),
            leg!("games_played_on_after_the_result", SMALL, wp(Profile::Normal), 600, 4800, 200, mk),
            leg!("interference_probe_normal", MIX, wx(Profile::Normal), 300, 2400, 300, mk),
            leg!("small_cycle_through_withheld_actions", SMALL, wn(Profile::Cycle), 300, 9000, 600, mk),
        ],
        "C04" => vec![
            leg!("games_normal", MIX, w(Profile::Normal, None), 1600, 48000, 1500, mk),
            leg!("games_fight", SMALL, w(Profile::Fight, None), 1600, 48000, 600, mk),
            leg!("false_protection_motif_tree", MOTIF, w(Profile::Fight, Some(TREE)), 300, 2400, 60, mk),
            leg!("injected_history_near_immobile", FROZEN, wi(Profile::Cycle, None), 1000, 8000, 600, mk),
            leg!("injected_history_normal", MIX, wi(Profile::Normal, None), 400, 3200, 600, mk),
            leg!("interference_probe_fight", MIX, wx(Profile::Fight), 400, 3200, 300, mk),
            leg!("interference_probe_motif", MOTIF, wx(Profile::Fight), 300, 2400, 60, mk),
        ],
        "C05" | "C06" | "C07" => vec![
            leg!("small_cycle", SMALL, w(Profile::Cycle, None), 5000, 150000, 1500, mk),
            leg!("games_normal", MIX, w(Profile::Normal, None), 2400, 72000, 1500, mk),
            leg!("small_fight", SMALL, w(Profile::Fight, None), 2000, 60000, 1000, mk),
            leg!("near_immobile_cycle", FROZEN, w(Profile::Cycle, None), 5000, 150000, 1000, mk),
            leg!("small_cycle_tree", SMALL, w(Profile::Cycle, Some(TREE_CYCLE)), 150, 4500, 600, mk),
            leg!("near_immobile_cycle_tree", FROZEN, w(Profile::Cycle, Some(TREE_CYCLE)), 100, 3000, 600, mk),
            leg!("injected_history_normal", MIX, wi(Profile::Normal, None), 600, 18000, 600, mk),
            leg!("injected_history_fight", MIX, wi(Profile::Fight, None), 400, 12000, 600, mk),
            leg!("injected_history_near_immobile", FROZEN, wi(Profile::Cycle, None), 1500, 45000, 600, mk),
            leg!("interference_probe_near_immobile", FROZEN, wx(Profile::Cycle), 600, 4800, 300, mk),
            leg!("setup_then_cycle", SETUP_CYCLE, w(Profile::Cycle, None), 400, 3200, 300, mk),
        ],
        "C08" => vec![
            leg!("games_normal", MIX_LONGSETUP, w(Profile::Normal, None), 3000, 90000, 1500, mk),
            leg!("games_fight", MIX, w(Profile::Fight, None), 3000, 90000, 1000, mk),
            leg!("small_cycle", SMALL, w(Profile::Cycle, None), 2000, 60000, 1000, mk),
            leg!("false_protection_motif_tree", MOTIF, w(Profile::Fight, Some(TREE)), 300, 2400, 60, mk),
            leg!("games_played_on_after_the_result", SMALL, wp(Profile::Normal), 600, 4800, 200, mk),
            leg!("setup_then_cycle", SETUP_CYCLE, w(Profile::Cycle, None), 200, 1600, 300, mk),
            leg!("interference_probe_fight", MIX, wx(Profile::Fight), 200, 1600, 300, mk),
            leg!("small_cycle_through_withheld_actions", SMALL, wn(Profile::Cycle), 300, 9000, 600, mk),
        ],
        "C09" => vec![leg!("setup_orders", SETUP_ONLY, w(Profile::Normal, None), 32000, 960000, 40, mk)],
        "C10" => vec![
            leg!("games_normal", MIX_LONGSETUP, w(Profile::Normal, None), 240, 7200, 1000, mk),
            leg!("games_fight_tree", MIX, w(Profile::Fight, Some(TREE_LIGHT)), 90, 2700, 400, mk),
            leg!("false_protection_motif_tree", MOTIF, w(Profile::Fight, Some(TREE)), 150, 1200, 60, mk),
            leg!("games_played_on_after_the_result", SMALL, wp(Profile::Normal), 600, 4800, 200, mk),
            leg!("interference_probe_fight", MIX, wx(Profile::Fight), 200, 1600, 300, mk),
            leg!("small_cycle_through_withheld_actions", SMALL, wn(Profile::Cycle), 300, 9000, 600, mk),
        ],
        "C11" => vec![
            leg!("games_normal", MIX, w(Profile::Normal, None), 1800, 54000, 800, mk),
            leg!("games_fight", MIX, w(Profile::Fight, None), 1800, 54000, 600, mk),
            leg!("small_cycle", SMALL, w(Profile::Cycle, None), 1800, 54000, 800, mk),
            leg!("setup_then_cycle", SETUP_CYCLE, w(Profile::Cycle, None), 400, 3200, 300, mk),
        ],
        "C12" => vec![
            leg!("tree_from_positions", POS_ONLY, w(Profile::Fight, Some(TREE)), 300, 9000, 60, mk),
            leg!("games_fight", MIX, w(Profile::Fight, Some(TREE_LIGHT)), 400, 12000, 400, mk),
            leg!("false_protection_motif_tree", MOTIF, w(Profile::Fight, Some(TREE)), 300, 2400, 60, mk),
            leg!("rebuilt_states_motif_tree", MOTIF, wr(Profile::Fight, Some(TREE)), 100, 800, 60, mk),
            leg!("rebuilt_states_games", MIX, wr(Profile::Fight, None), 300, 2400, 400, mk),
            leg!("interference_probe_fight", MIX, wx(Profile::Fight), 400, 3200, 300, mk),
            leg!("interference_probe_motif", MOTIF, wx(Profile::Fight), 300, 2400, 60, mk),
            leg!("small_cycle_through_withheld_actions", SMALL, wn(Profile::Cycle), 300, 9000, 600, mk),
        ],
        "C13" => vec![
            leg!("games_fight", MIX, w(Profile::Fight, Some(TREE_LIGHT)), 120, 3600, 500, mk),
            leg!("games_normal", MIX, w(Profile::Normal, None), 300, 9000, 1000, mk),
            leg!("false_protection_motif_tree", MOTIF, w(Profile::Fight, Some(TREE)), 200, 1600, 60, mk),
            leg!("interference_probe_fight", MIX, wx(Profile::Fight), 400, 3200, 300, mk),
            leg!("interference_probe_motif", MOTIF, wx(Profile::Fight), 300, 2400, 60, mk),
            leg!("open_positions_many_actions", OPEN, w(Profile::Normal, None), 400, 3200, 12, mk),
        ],
        "C14" => vec![
            leg!("tree_from_positions", POS_ONLY, w(Profile::Fight, Some(TREE)), 75, 2250, 60, mk),
            leg!("games_normal", MIX, w(Profile::Normal, None), 300, 9000, 1000, mk),
            leg!("false_protection_motif_tree", MOTIF, w(Profile::Fight, Some(TREE)), 200, 1600, 60, mk),
            leg!("games_played_on_after_the_result", SMALL, wp(Profile::Normal), 600, 4800, 200, mk),
            leg!("interference_probe_fight", MIX, wx(Profile::Fight), 200, 1600, 300, mk),
            leg!("small_cycle_through_withheld_actions", SMALL, wn(Profile::Cycle), 300, 9000, 600, mk),
        ],
        "C15" => vec![
            leg!("games_normal", MIX_LONGSETUP, w(Profile::Normal, None), 360, 10800, 800, mk),
            leg!("games_fight", MIX, w(Profile::Fight, None), 240, 7200, 600, mk),
        ],
        "C17" => vec![
            leg!("neighbours_of_reached_states_fight", MIX, w(Profile::Fight, None), 300, 9000, 400, mk),
            leg!("neighbours_of_reached_states_motif_tree", MOTIF, w(Profile::Fight, Some(TREE_LIGHT)), 100, 800, 60, mk),
        ],
        "C19" => vec![
            leg!("games_normal", MIX_LONGSETUP, w(Profile::Normal, None), 400, 12000, 1500, mk),
            leg!("games_fight_tree", MIX, w(Profile::Fight, Some(TREE_LIGHT)), 150, 4500, 500, mk),
            leg!("small_cycle", SMALL, w(Profile::Cycle, None), 400, 12000, 1000, mk),
            leg!("small_cycle_through_withheld_actions", SMALL, wn(Profile::Cycle), 600, 18000, 1000, mk),
            leg!("false_protection_motif_tree", MOTIF, w(Profile::Fight, Some(TREE)), 200, 1600, 60, mk),
            leg!("injected_history_near_immobile", FROZEN, wi(Profile::Cycle, None), 800, 6400, 600, mk),
            leg!("injected_history_fight", MIX, wi(Profile::Fight, None), 300, 2400, 600, mk),
            leg!("games_played_on_after_the_result", SMALL, wp(Profile::Normal), 600, 4800, 200, mk),
            leg!("interference_probe_fight", MIX, wx(Profile::Fight), 200, 1600, 300, mk),
            leg!("open_positions_many_actions", OPEN, w(Profile::Normal, None), 400, 3200, 12, mk),
            leg!("near_immobile_turn_trees", FROZEN, w(Profile::Cycle, Some(TREE)), 40, 1200, 4, mk),
        ],
        _ => vec![],
    }
}

pub fn rule(id: &str) -> &'static str {
    match id {
        "C01" => "evaluation = one play-phase state (walker main line or turn-tree node) at which set(valid_actions_no_rep()) is compared with the reference model's legal steps (NFA over turn parses) in both directions; non-trivial = a state with an enemy-piece step legal, or a frozen mover piece, or a mover rabbit whose backward square is empty, or at step 3; distinct by fingerprint of (board, side, step, parse set)",
        "C02" => "evaluation = one applied step or pass (walker or turn-tree edge) whose resulting engine board is compared square by square with the rule 'move one piece one square, then remove exactly the unsupported trap pieces'; non-trivial = step that captures, or lands on a trap and survives, or removes one supporter of a trap piece while another remains; distinct by (board before, action)",
        "C03" => "evaluation = one applied play-phase action whose successor's side/step/move number/pending status/per-turn record are compared with the turn-structure rules; non-trivial = a turn end, distinct by (how it ended, board, move number)",
        "C04" => "evaluation = one state (constructed position or visited by the walker) whose is_terminal() is compared with the official ladder computed by the reference model (turn start), or required to be None (setup, mid-turn with actions offered); non-trivial = at least one of the five conditions true (or goal/elimination present mid-turn); distinct by (board, side)",
        "C05" => "evaluation = one offered turn-ending action (pass, or any action at step 3) at a visited state, whose exact resulting board is compared with the turn's start board and with the model's complete, never truncated start-of-turn list; non-trivial = a legal second occurrence or a state where the engine withholds something; distinct by (state fingerprint, history length)",
        "C06" => "evaluation = one play-phase state where valid_actions() is compared, order preserved, with valid_actions_no_rep() minus the turn-ending actions the model's exact-board predicate forbids; non-trivial = state where some action is withheld; distinct by (state fingerprint, history length)",
        "C07" => "evaluation = one state (setup or play) where is_terminal/has_move/can_pass are compared with the action lists; non-trivial = state where the repetition rules withhold something, or the offered list is empty, or a setup state with <= 2 types left",
        "C08" => "evaluation = one play-phase state where transposition_hash() is compared with the from-scratch hash (Zobrist::from_piece_board + status), the recorded start-of-turn hashes with from-scratch hashes of the model's start-of-turn positions, start-of-turn states with the parsed diagram's hash, and revisits of (board, side, step) for == and std::hash equality; non-trivial = state after >= 1 capture, revisit by another path, or a turn change",
        "C09" => "evaluation = one setup state (offered placement set) or one placement (whole-board comparison + side/phase switch); non-trivial = a prefix in which at least one piece type is exhausted, distinct by board",
        "C10" => "evaluation = one state at which all board views (8 raw bitboards, bits_for_piece, player_piece_mask, bits_by_piece_type, piece_type_at_square, printed diagram read by an independent reader) are compared square by square with the model board under the index convention, plus complement bounds and trap legality; non-trivial = >= 8 pieces of >= 4 kinds, or a state just after a capture",
        "C11" => "evaluation = one play-phase state of a game played simultaneously on the original and on its three images (file mirror, colour swap + rank flip, both); offered sets (with and without repetition rules), results, statuses, capture previews and boards must map onto each other; no reference model in the oracle; non-trivial = a game with a capture, a push/pull or a withheld action",
        "C12" => "evaluation = one play-phase state where push_pull_state() is compared with the status derived from the property text and the previous step, and (push pending) the rule-only list with the set of unfrozen strictly stronger friendly steps into the vacated square; non-trivial = status != None",
        "C13" => "evaluation = one (state, offered action) pair where trapped_animal_for_action is compared with the difference of the engine's boards before/after take_action (and the model's removal); non-trivial = preview is Some; distinct by (board, action)",
        "C14" => "evaluation = one play-phase state after k steps where piece_board_for_step(i), all eight fields, is compared with the model's board after i steps for every i <= k; non-trivial = k >= 2 with pairwise different boards",
        "C15" => "evaluation = one reachable state printed, parsed, re-printed (round trip), or one generated text fed to the parser under catch_unwind; non-trivial (round trip) = >= 2 piece codes on board or Silver to move or move number >= 10; (text) = input that reaches the cell loop or matches the header",
        "C19" => "evaluation = one reachable state on which every public query and, for every offered action, preview and application are executed under catch_unwind in a build with overflow checks and debug assertions; non-trivial = pending push, possible pull, step 3, capture this turn, one setup square left, or <= 2 pieces",
        _ => "",
    }
}
