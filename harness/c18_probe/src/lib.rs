//! C18, type-level half: a client program that requires Send + Sync of the crate's public types.
//! If this crate stops compiling with E0277 while the engine itself compiles, every multi-threaded
//! search built on the engine stops compiling too.
use arimaa_engine_step::*;

fn require_send_sync<T: Send + Sync + 'static>() {}

pub fn probe() {
    require_send_sync::<GameState>();
    require_send_sync::<PieceBoardState>();
    require_send_sync::<PieceBoard>();
    require_send_sync::<PlayPhase>();
    require_send_sync::<Phase>();
    require_send_sync::<PushPullState>();
    require_send_sync::<Action>();
    require_send_sync::<Square>();
    require_send_sync::<Piece>();
    require_send_sync::<Direction>();
    require_send_sync::<Terminal>();
    require_send_sync::<Zobrist>();
    require_send_sync::<List<Zobrist>>();
}

/// The shape of a real client: a state shared by reference between scoped threads and sent into
/// spawned ones.
pub fn client(root: GameState) -> usize {
    let shared = std::sync::Arc::new(root);
    let a = shared.clone();
    let h = std::thread::spawn(move || a.valid_actions().len());
    let n = std::thread::scope(|s| s.spawn(|| shared.valid_actions().len()).join().unwrap());
    n + h.join().unwrap()
}
