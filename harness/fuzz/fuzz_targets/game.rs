#![no_main]
use libfuzzer_sys::fuzz_target;
use std::sync::OnceLock;

// bytes -> (legal start position or setup, selectors into the offered action lists) -> walker with
// the oracle clauses of one property (VERIF_FUZZ_ONLY=<id>) or of every walker-based property.
static ONLY: OnceLock<Option<String>> = OnceLock::new();

fuzz_target!(|data: &[u8]| {
    let only = ONLY.get_or_init(|| std::env::var("VERIF_FUZZ_ONLY").ok().filter(|s| !s.is_empty()));
    if let Err(e) = arimaa_verif::fuzzdec::game_target(data, only.as_deref()) {
        eprintln!("FUZZ-VIOLATION {}: {}", e.fail.clause, e.fail.detail);
        std::process::abort();
    }
});
