#![no_main]
use libfuzzer_sys::fuzz_target;

// The semantic oracle of the property is inside the target (DESIGN.md §1): a target that only
// waits for crashes would check memory safety, not the property.
fuzz_target!(|data: &[u8]| {
    if let Err(e) = arimaa_verif::fuzzdec::action_target(data) {
        eprintln!("FUZZ-VIOLATION {}: {}", e.fail.clause, e.fail.detail);
        std::process::abort();
    }
});
