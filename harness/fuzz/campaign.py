#!/usr/bin/env python3
"""libFuzzer campaign for one target with a fixed amount of work (-runs per worker), from the
committed seed corpus plus an empty-corpus worker share. Prints a JSON summary; exit 0 = no artifact,
1 = artifact(s) saved (paths in the summary), 2 = could not run.
usage: campaign.py <target> <runs_per_worker> <seed> <summary.json> [only_property]"""
import glob, json, os, re, shutil, subprocess, sys, time
HERE = os.path.dirname(os.path.abspath(__file__))
HARNESS = os.path.dirname(HERE)
target, runs, seed, summary = sys.argv[1], int(sys.argv[2]), int(sys.argv[3]) % (2**31 - 1) or 1, sys.argv[4]
only = sys.argv[5] if len(sys.argv) > 5 else ''
env = dict(os.environ, CARGO_NET_OFFLINE='true', VERIF_FUZZ_ONLY=only)
env.pop('RUSTFLAGS', None)
work = os.path.join(HARNESS, 'target', 'fuzz-work', target + ('-' + only if only else ''))
shutil.rmtree(work, ignore_errors=True)
os.makedirs(work)
t0 = time.time()
# no sanitizer: the engine and the harness contain no unsafe code, the oracle is inside the target
b = subprocess.run(['cargo', '+nightly', 'fuzz', 'build', '--sanitizer', 'none', target], cwd=HARNESS, env=env, stdout=subprocess.PIPE, stderr=subprocess.STDOUT, text=True)
if b.returncode != 0:
    print(b.stdout[-3000:], file=sys.stderr)
    json.dump({'error': 'fuzz build failed'}, open(summary, 'w'))
    sys.exit(2)
binary = os.path.join(HERE, 'target', 'x86_64-unknown-linux-gnu', 'release', target)
maxlen = {'parse_board': 600, 'parse_action': 16, 'game': 640}[target]
result = {'target': target, 'only': only, 'runs_per_worker': runs, 'seed': seed, 'campaigns': []}
artifacts = []
for name, seeded, workers in (('seeded', True, 12), ('empty', False, 4)):
    corpus = os.path.join(work, 'corpus-' + name)
    art = os.path.join(work, 'artifacts-' + name) + '/'
    os.makedirs(corpus); os.makedirs(art)
    if seeded:
        for f in glob.glob(os.path.join(HERE, 'seeds', target, '*')):
            shutil.copy(f, corpus)
    cmd = [binary, corpus, '-runs=%d' % runs, '-seed=%d' % seed, '-max_len=%d' % maxlen, '-len_control=0',
           '-artifact_prefix=' + art, '-jobs=%d' % workers, '-workers=%d' % workers, '-print_final_stats=1', '-timeout=60']
    p = subprocess.run(cmd, cwd=work, env=env, stdout=subprocess.PIPE, stderr=subprocess.STDOUT, text=True)
    execs = 0; cov = 0; ft = 0
    for lf in glob.glob(os.path.join(work, 'fuzz-*.log')):
        txt = open(lf, errors='replace').read()
        m = re.findall(r'stat::number_of_executed_units:\s*(\d+)', txt)
        if m: execs += int(m[-1])
        m = re.findall(r'cov: (\d+) ft: (\d+)', txt)
        if m:
            cov = max(cov, int(m[-1][0])); ft = max(ft, int(m[-1][1]))
        os.rename(lf, lf + '.' + name)
    arts = sorted(glob.glob(art + '*'))
    artifacts += arts
    result['campaigns'].append({'corpus': name, 'workers': workers, 'executions': execs, 'edge_coverage': cov, 'features': ft,
                                'corpus_files_after': len(os.listdir(corpus)), 'artifacts': arts, 'exit': p.returncode})
result['wall_s'] = round(time.time() - t0, 1)
result['artifacts'] = artifacts
json.dump(result, open(summary, 'w'), indent=1)
print(json.dumps({k: v for k, v in result.items() if k != 'campaigns'}))
sys.exit(1 if artifacts else 0)
