#!/bin/bash
# Offline build of everything the registered checks need. Nothing is fetched; nothing under /tmp is needed later.
set -e
HERE="$(cd "$(dirname "${BASH_SOURCE[0]}")" && pwd)"
export CARGO_NET_OFFLINE=true
export RUSTFLAGS="${RUSTFLAGS:-} -Awarnings"
cd "$HERE/harness"
cargo build --release --quiet                       # pbt, c18_conc, c20_child (checked profile)
cargo build --quiet --bin c20_child --bin longdrop  # dev profile children for C20 / C18
cargo build --quiet --manifest-path c18_probe/Cargo.toml --target-dir "$HERE/harness/target/probe"
echo "setup ok"
