#!/bin/bash
# runs every thorough check once, sequentially (evidence files are rewritten by each)
cd "$(dirname "$0")"
for i in 01 02 03 04 05 06 07 08 09 10 11 12 13 14 15 16 17 18 19 20; do
  t0=$(date +%s); full=$(./run C$i thorough 2>&1); rc=$?; out=$(echo "$full" | tail -1)
  echo "C$i rc=$rc $(( $(date +%s) - t0 ))s $out" | cut -c1-200
done
