#!/bin/bash
# Soundness sweep: every quick check with several seeds on the unchanged tree; any non-zero exit is reported.
# usage: sweep.sh "<seeds>" [tier]
cd "$(dirname "$0")"
SEEDS="${1:-1 2 3 4 5}"; TIER="${2:-quick}"
# under `vp run --with-repo` use the snapshot of /repo, so that work in /repo cannot disturb the sweep
[ -n "${VP_RUN_REPO:-}" ] && export VERIF_REPO="$VP_RUN_REPO"
bad=0
for s in $SEEDS; do
  for i in 01 02 03 04 05 06 07 08 09 10 11 12 13 14 15 16 17 18 19 20; do
    out=$(VERIF_SEED=$s ./run C$i $TIER 2>&1); rc=$?
    if [ $rc -ne 0 ]; then bad=$((bad+1)); echo "SEED $s C$i exit $rc"; echo "$out" | tail -5 | cut -c1-800; else echo "seed $s C$i ok $(echo "$out" | tail -1 | sed 's/.*wall_s=//')s"; fi
  done
done
echo "sweep done: $bad non-zero exits"
